(* Props/C13.v -- property C13: one k-means step (Model/Kmeans.v) assigns every point to a nearest
   centroid (the first among equally near ones), merges every point into exactly one centroid,
   conserves the samples, aligns the lookup with the points, and produces a symmetric, normalised
   metric with pairwise distinct keys.
   Statements use only Base/ Model/ Gen/ Spec/ definitions; proofs live in Proofs/.

   The theorems are stated for an arbitrary carrier F whose comparison [flt] is a STRICT WEAK
   ORDER (Spec/SpecKmeans.v).  This is weaker than the strict total order asked for
   (C13_strict_total_is_weak), and it is the hypothesis the non-NaN floats satisfy: +0.0 and -0.0
   are different values, neither below the other.  The [_Q] theorems are the closed instances
   over the rationals ([flt] = [Qltb], i.e. [<]). *)
From Coq Require Import Arith NArith ZArith List Bool QArith Permutation.
From RP Require Import Base.Bits Model.Codec Model.Kmeans Spec.SpecKmeans.
From RP Require Proofs.C13_Neighborhood Proofs.C13_Next Proofs.C13_Lookup Proofs.C13_Metric
                Proofs.C13_Q Proofs.C13_Examples.
Import ListNotations.
Close Scope Q_scope.

(* ---------- 0. the order ---------- *)
Theorem C13_strict_total_is_weak : forall (F : Type) (flt : F -> F -> bool),
  strict_total_order flt -> strict_weak_order flt.
Proof. exact C13_Neighborhood.strict_total_is_weak. Qed.
Print Assumptions C13_strict_total_is_weak.
Example C13_order_hyp : strict_total_order N.ltb.
Proof. exact C13_Examples.ex_Nltb_total. Qed.

Theorem C13_Q_order : strict_weak_order Qltb.
Proof. exact C13_Q.Qltb_swo. Qed.
Print Assumptions C13_Q_order.
Example C13_Q_order_not_total : ~ strict_total_order Qltb.
Proof. exact C13_Examples.ex_Qltb_not_total. Qed.

(* ---------- 1. neighborhood ---------- *)
(* a nearest centroid, and the first among the equally near ones *)
Theorem C13_neighborhood_nearest : forall (F : Type) (flt : F -> F -> bool),
  strict_weak_order flt ->
  forall column, ~ In None column -> column <> [] ->
  exists j x, neighborhood F flt column = Some (j, x) /\
              nth_error column j = Some (Some x) /\
              (forall i y, nth_error column i = Some (Some y) -> flt y x = false) /\
              (forall i y, (i < j)%nat -> nth_error column i = Some (Some y) -> flt x y = true).
Proof. exact C13_Neighborhood.neighborhood_nearest. Qed.
Print Assumptions C13_neighborhood_nearest.

Theorem C13_neighborhood_nearest_Q : forall column : list (option Q),
  ~ In None column -> column <> [] ->
  exists j x, neighborhood_Q column = Some (j, x) /\
              nth_error column j = Some (Some x) /\
              (forall i y, nth_error column i = Some (Some y) -> (x <= y)%Q) /\
              (forall i y, (i < j)%nat -> nth_error column i = Some (Some y) -> (x < y)%Q).
Proof. exact C13_Q.neighborhood_nearest_Q. Qed.
Print Assumptions C13_neighborhood_nearest_Q.
Example C13_neighborhood_nearest_hyp :
  ~ In None C13_Examples.col_tie /\ C13_Examples.col_tie <> [].
Proof. exact C13_Examples.ex_col_tie_good. Qed.
(* [Some (3/2); Some (1/2); Some (2/4); Some 1]: the tie 1/2 = 2/4 goes to the first centroid *)
Example C13_neighborhood_tie : neighborhood_Q C13_Examples.col_tie = Some (1%nat, (1 # 2)%Q).
Proof. exact C13_Examples.ex_tie. Qed.

(* a NaN among the distances: the step aborts instead of mis-assigning (no hypothesis on flt) *)
Theorem C13_neighborhood_nan : forall (F : Type) (flt : F -> F -> bool) column,
  In None column -> neighborhood F flt column = None.
Proof. exact C13_Neighborhood.neighborhood_nan. Qed.
Print Assumptions C13_neighborhood_nan.

Theorem C13_neighborhood_nan_Q : forall column : list (option Q),
  In None column -> neighborhood_Q column = None.
Proof. exact C13_Q.neighborhood_nan_Q. Qed.
Print Assumptions C13_neighborhood_nan_Q.
Example C13_neighborhood_nan_hyp : In None C13_Examples.col_nan.
Proof. exact C13_Examples.ex_col_nan_bad. Qed.
Example C13_neighborhood_nan_ex : neighborhood_Q C13_Examples.col_nan = None.
Proof. exact C13_Examples.ex_nan. Qed.

(* conversely, a result is produced only for a non-empty column without NaN *)
Theorem C13_neighborhood_some_inv : forall (F : Type) (flt : F -> F -> bool) column r,
  neighborhood F flt column = Some r -> ~ In None column /\ column <> [].
Proof. exact C13_Neighborhood.neighborhood_some_inv. Qed.
Print Assumptions C13_neighborhood_some_inv.

(* ---------- 2. Histogram::absorb ---------- *)
Theorem C13_absorb_count : forall a other acc,
  count a (absorb acc other) = N.add (count a acc) (count a other).
Proof. exact C13_Next.count_absorb. Qed.
Print Assumptions C13_absorb_count.

Theorem C13_absorb_mass : forall other acc, mass (absorb acc other) = N.add (mass acc) (mass other).
Proof. exact C13_Next.mass_absorb. Qed.
Print Assumptions C13_absorb_mass.

Theorem C13_absorb_sorted : forall other acc, sorted_keys acc -> sorted_keys (absorb acc other).
Proof. exact C13_Next.absorb_sorted. Qed.
Print Assumptions C13_absorb_sorted.

(* in a histogram with sorted keys, [count] is the value stored under the key *)
Theorem C13_count_sorted : forall a c h, sorted_keys h -> In (a, c) h -> count a h = c.
Proof. exact C13_Next.count_sorted_in. Qed.
Print Assumptions C13_count_sorted.
Example C13_sorted_hyp : sorted_keys [(1, 2); (5, 1)]%N /\ In (5, 1)%N [(1, 2); (5, 1)]%N.
Proof. exact C13_Examples.ex_sorted. Qed.
Example C13_absorb_ex :
  absorb [(1, 2); (5, 1)]%N [(5, 3); (0, 7); (9, 1)]%N = [(0, 7); (1, 2); (5, 4); (9, 1)]%N.
Proof. exact C13_Examples.ex_absorb. Qed.

Theorem C13_mass_sum : forall h, mass h = sumN (map snd h).
Proof. exact C13_Next.mass_sum. Qed.
Print Assumptions C13_mass_sum.

(* ---------- 3. Layer::next ---------- *)
(* [members flt columns j] are the indices i, increasing, with [nearest flt (column i) = j] *)
Theorem C13_members_spec : forall (F : Type) (flt : F -> F -> bool) (columns : list (list (option F))) j i,
  In i (members flt columns j) <-> ((i < length columns)%nat /\ nearest flt (nth i columns []) = j).
Proof. exact C13_Next.members_spec. Qed.
Print Assumptions C13_members_spec.

(* each point is merged into exactly one centroid, the nearest; slot j is the merge, in point
   order, of exactly the points assigned to j *)
Theorem C13_next_partition : forall (F : Type) (flt : F -> F -> bool),
  strict_weak_order flt ->
  forall k points columns,
  length points = length columns -> (0 < k)%nat ->
  (forall c, In c columns -> good_column k c) ->
  exists cs, next_step F flt k points columns = Some cs /\ length cs = k /\
    (forall i c, nth_error columns i = Some c ->
       exists x, neighborhood F flt c = Some (nearest flt c, x) /\ (nearest flt c < k)%nat) /\
    (forall j, nth j cs [] = absorb_all (map (fun i => nth i points []) (members flt columns j))).
Proof. exact C13_Next.next_partition. Qed.
Print Assumptions C13_next_partition.

Theorem C13_next_partition_Q : forall k points (columns : list (list (option Q))),
  length points = length columns -> (0 < k)%nat ->
  (forall c, In c columns -> good_column k c) ->
  exists cs, next_step_Q k points columns = Some cs /\ length cs = k /\
    (forall i c, nth_error columns i = Some c ->
       exists x, neighborhood_Q c = Some (nearest Qltb c, x) /\ (nearest Qltb c < k)%nat) /\
    (forall j, nth j cs [] = absorb_all (map (fun i => nth i points []) (members Qltb columns j))).
Proof. exact C13_Q.next_partition_Q. Qed.
Print Assumptions C13_next_partition_Q.
Example C13_next_hyp :
  length C13_Examples.pts = length C13_Examples.cols /\ (0 < 2)%nat /\
  (forall c, In c C13_Examples.cols -> good_column 2 c).
Proof. exact C13_Examples.ex_next_hyp. Qed.
Example C13_next_ex :
  next_step_Q 2 C13_Examples.pts C13_Examples.cols = Some [[(1, 2); (5, 4)]; [(1, 1); (2, 2); (7, 5)]]%N.
Proof. exact C13_Examples.ex_next. Qed.

(* the new centroids together contain exactly the samples of all points *)
Theorem C13_next_mass : forall (F : Type) (flt : F -> F -> bool),
  strict_weak_order flt ->
  forall k points columns,
  length points = length columns -> (0 < k)%nat ->
  (forall c, In c columns -> good_column k c) ->
  exists cs, next_step F flt k points columns = Some cs /\
    (forall a, sumN (map (count a) cs) = sumN (map (count a) points)) /\
    sumN (map mass cs) = sumN (map mass points) /\
    Forall sorted_keys cs.
Proof. exact C13_Next.next_mass. Qed.
Print Assumptions C13_next_mass.

Theorem C13_next_mass_Q : forall k points (columns : list (list (option Q))),
  length points = length columns -> (0 < k)%nat ->
  (forall c, In c columns -> good_column k c) ->
  exists cs, next_step_Q k points columns = Some cs /\
    (forall a, sumN (map (count a) cs) = sumN (map (count a) points)) /\
    sumN (map mass cs) = sumN (map mass points) /\
    Forall sorted_keys cs.
Proof. exact C13_Q.next_mass_Q. Qed.
Print Assumptions C13_next_mass_Q.

(* the same facts for ANY successful step (no hypothesis on the order or the columns) *)
Theorem C13_next_some : forall (F : Type) (flt : F -> F -> bool) k points columns cs,
  length points = length columns ->
  next_step F flt k points columns = Some cs ->
  length cs = k /\
  (forall i c, nth_error columns i = Some c ->
     exists x, neighborhood F flt c = Some (nearest flt c, x) /\ (nearest flt c < k)%nat) /\
  (forall j, nth j cs [] = absorb_all (map (fun i => nth i points []) (members flt columns j))) /\
  (forall a, sumN (map (count a) cs) = sumN (map (count a) points)) /\
  sumN (map mass cs) = sumN (map mass points) /\
  Forall sorted_keys cs.
Proof. exact C13_Next.next_some_spec. Qed.
Print Assumptions C13_next_some.

(* a NaN (or an empty column) for any point aborts the whole step *)
Theorem C13_next_nan : forall (F : Type) (flt : F -> F -> bool) k points columns i p c,
  nth_error points i = Some p -> nth_error columns i = Some c ->
  (In None c \/ c = []) ->
  next_step F flt k points columns = None.
Proof. exact C13_Next.next_nan. Qed.
Print Assumptions C13_next_nan.
Example C13_next_nan_ex : next_step_Q 2 C13_Examples.pts C13_Examples.cols_nan = None.
Proof. exact C13_Examples.ex_next_nan. Qed.

(* ---------- 4. Layer::lookup ---------- *)
Theorem C13_lookup_aligned : forall (F : Type) (flt : F -> F -> bool) street classes columns l,
  length classes = length columns ->
  lookup_step F flt street classes columns = Some l ->
  length l = length classes /\
  (forall i o c, nth_error classes i = Some o -> nth_error columns i = Some c ->
     exists x a, neighborhood F flt c = Some (nearest flt c, x) /\
                 abs_make street (N.of_nat (nearest flt c)) = Some a /\
                 nth_error l i = Some (o, abits a)).
Proof. exact C13_Lookup.lookup_aligned. Qed.
Print Assumptions C13_lookup_aligned.

Theorem C13_lookup_aligned_Q : forall street classes (columns : list (list (option Q))) l,
  length classes = length columns ->
  lookup_step_Q street classes columns = Some l ->
  length l = length classes /\
  (forall i o c, nth_error classes i = Some o -> nth_error columns i = Some c ->
     exists x a, neighborhood_Q c = Some (nearest Qltb c, x) /\
                 abs_make street (N.of_nat (nearest Qltb c)) = Some a /\
                 nth_error l i = Some (o, abits a)).
Proof. exact C13_Q.lookup_aligned_Q. Qed.
Print Assumptions C13_lookup_aligned_Q.
Example C13_lookup_hyp :
  length C13_Examples.cls = length C13_Examples.cols /\
  exists l, lookup_step_Q 2 C13_Examples.cls C13_Examples.cols = Some l.
Proof. exact C13_Examples.ex_lookup_hyp. Qed.

(* the failure mode, stated: when the lengths differ the result silently has the shorter length
   (and the entries that exist are still aligned: C13_lookup_spec) *)
Theorem C13_lookup_truncates : forall (F : Type) (flt : F -> F -> bool) street classes columns l,
  lookup_step F flt street classes columns = Some l ->
  length l = Nat.min (length classes) (length columns).
Proof. exact C13_Lookup.lookup_truncates. Qed.
Print Assumptions C13_lookup_truncates.

Theorem C13_lookup_truncates_Q : forall street classes (columns : list (list (option Q))) l,
  lookup_step_Q street classes columns = Some l ->
  length l = Nat.min (length classes) (length columns).
Proof. exact C13_Q.lookup_truncates_Q. Qed.
Print Assumptions C13_lookup_truncates_Q.
Example C13_lookup_truncates_ex :
  lookup_step_Q 2 (firstn 3 C13_Examples.cls) C13_Examples.cols =
  Some [(mkObs 3 28, bucket_code 2 0); (mkObs 5 56, bucket_code 2 1); (mkObs 6 112, bucket_code 2 0)]%N.
Proof. exact C13_Examples.ex_lookup_trunc. Qed.

Theorem C13_lookup_spec : forall (F : Type) (flt : F -> F -> bool) street classes columns l,
  lookup_step F flt street classes columns = Some l ->
  length l = Nat.min (length classes) (length columns) /\
  (forall i o c, nth_error classes i = Some o -> nth_error columns i = Some c ->
     exists x a, neighborhood F flt c = Some (nearest flt c, x) /\
                 abs_make street (N.of_nat (nearest flt c)) = Some a /\
                 nth_error l i = Some (o, abits a)).
Proof. exact C13_Lookup.lookup_spec. Qed.
Print Assumptions C13_lookup_spec.

Theorem C13_lookup_total : forall (F : Type) (flt : F -> F -> bool),
  strict_weak_order flt ->
  forall street classes columns,
  (street <= 3)%N -> (forall c, In c columns -> ~ In None c /\ c <> []) ->
  exists l, lookup_step F flt street classes columns = Some l.
Proof. exact C13_Lookup.lookup_total. Qed.
Print Assumptions C13_lookup_total.
Example C13_lookup_total_hyp :
  (2 <= 3)%N /\ (forall c, In c C13_Examples.cols -> ~ In None c /\ c <> []).
Proof. exact C13_Examples.ex_lookup_total_hyp. Qed.

Theorem C13_lookup_nan : forall (F : Type) (flt : F -> F -> bool) street classes columns i o c,
  nth_error classes i = Some o -> nth_error columns i = Some c ->
  (In None c \/ c = []) ->
  lookup_step F flt street classes columns = None.
Proof. exact C13_Lookup.lookup_nan. Qed.
Print Assumptions C13_lookup_nan.
Example C13_lookup_nan_ex : lookup_step_Q 2 C13_Examples.cls C13_Examples.cols_nan = None.
Proof. exact C13_Examples.ex_lookup_nan. Qed.

(* ---------- 5. Layer::metric / Metric::from ---------- *)
(* k(k-1)/2 entries; the entry of the pair j < i sits at position i(i-1)/2 + j, has the key of the
   two bucket codes and the value (dist i j + dist j i)/2 divided by the maximum
   [metric_max] = fold of max over all symmetrised distances from MIN_POSITIVE; nothing else is in
   the result.  No hypothesis on the arithmetic, the street or k. *)
Theorem C13_metric_shape : forall (F : Type) (fadd fdiv : F -> F -> F) (fle : F -> F -> bool)
    (two fminpos : F) street dist k m,
  metric_step F fadd fdiv fle two fminpos street dist k = Some m ->
  length m = (k * (k - 1) / 2)%nat /\
  (forall i j, (j < i)%nat -> (i < k)%nat ->
     nth_error m (tri_index i j) =
     Some (pair_key (bucket_code street i) (bucket_code street j),
           fdiv (sym F fadd fdiv two dist i j) (metric_max F fadd fdiv fle two fminpos dist k))) /\
  (forall e, In e m -> exists i j, (j < i)%nat /\ (i < k)%nat /\
     e = (pair_key (bucket_code street i) (bucket_code street j),
          fdiv (sym F fadd fdiv two dist i j) (metric_max F fadd fdiv fle two fminpos dist k))).
Proof. exact C13_Metric.metric_shape. Qed.
Print Assumptions C13_metric_shape.

(* the key serves both orders of the pair *)
Theorem C13_pair_key_sym : forall a b, pair_key a b = pair_key b a.
Proof. exact C13_Metric.pair_key_sym. Qed.
Print Assumptions C13_pair_key_sym.

Theorem C13_metric_total : forall (F : Type) (fadd fdiv : F -> F -> F) (fle : F -> F -> bool)
    (two fminpos : F) street dist k,
  (street <= 3)%N -> exists m, metric_step F fadd fdiv fle two fminpos street dist k = Some m.
Proof. exact C13_Metric.metric_total. Qed.
Print Assumptions C13_metric_total.
Example C13_metric_bad_street_ex : metric_step_Q Q_MIN_POSITIVE 4 C13_Examples.d3 3 = None.
Proof. exact C13_Examples.ex_metric_bad_street. Qed.

Theorem C13_metric_shape_Q : forall fminpos street dist k m,
  metric_step_Q fminpos street dist k = Some m ->
  length m = (k * (k - 1) / 2)%nat /\
  (forall i j, (j < i)%nat -> (i < k)%nat ->
     nth_error m (tri_index i j) =
     Some (pair_key (bucket_code street i) (bucket_code street j),
           (sym_Q dist i j / metric_max_Q fminpos dist k)%Q)) /\
  (forall e, In e m -> exists i j, (j < i)%nat /\ (i < k)%nat /\
     e = (pair_key (bucket_code street i) (bucket_code street j),
          (sym_Q dist i j / metric_max_Q fminpos dist k)%Q)).
Proof. exact C13_Q.metric_shape_Q. Qed.
Print Assumptions C13_metric_shape_Q.

Theorem C13_sym_Q : forall dist i j,
  (sym_Q dist i j == (dist i j + dist j i) / 2)%Q /\ (sym_Q dist i j == sym_Q dist j i)%Q.
Proof. exact C13_Q.sym_Q_spec. Qed.
Print Assumptions C13_sym_Q.

(* over Q, for any positive MIN_POSITIVE: the divisor is the maximum of MIN_POSITIVE and the
   symmetrised distances; with non-negative distances every value lies in [0, 1]; the value 1 is
   attained as soon as one symmetrised distance reaches MIN_POSITIVE -- and NOT merely when one is
   positive: if all are below MIN_POSITIVE all values are below 1 (C13_metric_tiny_ex) *)
Theorem C13_metric_range_Q : forall fminpos street dist k m,
  (0 < fminpos)%Q ->
  metric_step_Q fminpos street dist k = Some m ->
  ((fminpos <= metric_max_Q fminpos dist k)%Q /\
   (forall i j, (j < i)%nat -> (i < k)%nat -> (sym_Q dist i j <= metric_max_Q fminpos dist k)%Q) /\
   (metric_max_Q fminpos dist k = fminpos \/
    exists i j, (j < i)%nat /\ (i < k)%nat /\ metric_max_Q fminpos dist k = sym_Q dist i j)) /\
  ((forall i j, (i < k)%nat -> (j < k)%nat -> (0 <= dist i j)%Q) ->
   forall e, In e m -> (0 <= snd e)%Q /\ (snd e <= 1)%Q) /\
  ((exists i j, (j < i)%nat /\ (i < k)%nat /\ (fminpos <= sym_Q dist i j)%Q) ->
   exists i j, (j < i)%nat /\ (i < k)%nat /\
     exists v, nth_error m (tri_index i j) =
                 Some (pair_key (bucket_code street i) (bucket_code street j), v) /\ (v == 1)%Q) /\
  ((forall i j, (j < i)%nat -> (i < k)%nat -> (sym_Q dist i j < fminpos)%Q) ->
   forall e, In e m -> (snd e < 1)%Q).
Proof. exact C13_Q.metric_range_Q. Qed.
Print Assumptions C13_metric_range_Q.
Example C13_metric_hyp :
  (0 < Q_MIN_POSITIVE)%Q /\ (exists m, metric_step_Q Q_MIN_POSITIVE 1 C13_Examples.d3 3 = Some m) /\
  (forall i j, (i < 3)%nat -> (j < 3)%nat -> (0 <= C13_Examples.d3 i j)%Q) /\
  (exists i j, (j < i)%nat /\ (i < 3)%nat /\ (Q_MIN_POSITIVE <= sym_Q C13_Examples.d3 i j)%Q).
Proof. exact C13_Examples.ex_metric_hyp. Qed.
Example C13_metric_ex :
  option_map (map (fun e => (fst e, Qred (snd e))))
             (metric_step_Q Q_MIN_POSITIVE 1 C13_Examples.d3 3) =
  Some [(pair_key (bucket_code 1 1) (bucket_code 1 0), 1 # 4);
        (pair_key (bucket_code 1 2) (bucket_code 1 0), 1 # 1);
        (pair_key (bucket_code 1 2) (bucket_code 1 1), 1 # 2)]%Q.
Proof. exact C13_Examples.ex_metric. Qed.
Example C13_metric_tiny_ex :
  option_map (map (fun e => (fst e, Qred (snd e))))
             (metric_step_Q Q_MIN_POSITIVE 1 C13_Examples.dtiny 2) =
  Some [(pair_key (bucket_code 1 1) (bucket_code 1 0), 1 # 2)]%Q.
Proof. exact C13_Examples.ex_metric_tiny. Qed.

(* ---------- 6. the keys of the metric ---------- *)
(* for a learned street and at most its number of buckets, the keys are pairwise distinct and
   non-zero (from C15_pair_keys) *)
Theorem C13_metric_keys_distinct : forall (F : Type) (fadd fdiv : F -> F -> F) (fle : F -> F -> bool)
    (two fminpos : F) street dist k m,
  (1 <= street <= 3)%N -> (N.of_nat k <= street_k street)%N ->
  metric_step F fadd fdiv fle two fminpos street dist k = Some m ->
  NoDup (map fst m) /\ ~ In 0%N (map fst m).
Proof. exact C13_Metric.metric_keys_distinct. Qed.
Print Assumptions C13_metric_keys_distinct.

Theorem C13_metric_keys_distinct_Q : forall fminpos street dist k m,
  (1 <= street <= 3)%N -> (N.of_nat k <= street_k street)%N ->
  metric_step_Q fminpos street dist k = Some m ->
  NoDup (map fst m) /\ ~ In 0%N (map fst m).
Proof. exact C13_Q.metric_keys_distinct_Q. Qed.
Print Assumptions C13_metric_keys_distinct_Q.
Example C13_metric_keys_hyp :
  (1 <= 2 <= 3)%N /\ (N.of_nat 144 <= street_k 2)%N /\
  exists m, metric_step_Q Q_MIN_POSITIVE 2 C13_Examples.d3 144 = Some m.
Proof. exact C13_Examples.ex_keys_hyp. Qed.

(* with all the buckets of the street, the keys are the pair keys of the street up to order *)
Theorem C13_metric_keys_all : forall (F : Type) (fadd fdiv : F -> F -> F) (fle : F -> F -> bool)
    (two fminpos : F) street dist m,
  (1 <= street <= 3)%N ->
  metric_step F fadd fdiv fle two fminpos street dist (N.to_nat (street_k street)) = Some m ->
  Permutation (map fst m) (pairs_of (abs_all street)).
Proof. exact C13_Metric.metric_keys_all. Qed.
Print Assumptions C13_metric_keys_all.
Example C13_metric_keys_all_hyp :
  (1 <= 2 <= 3)%N /\
  exists m, metric_step_Q Q_MIN_POSITIVE 2 C13_Examples.d3 (N.to_nat (street_k 2)) = Some m.
Proof. exact C13_Examples.ex_keys_all_hyp. Qed.

(* with fewer buckets, a sub-multiset of them *)
Theorem C13_metric_keys_sub : forall (F : Type) (fadd fdiv : F -> F -> F) (fle : F -> F -> bool)
    (two fminpos : F) street dist k m,
  (1 <= street <= 3)%N -> (N.of_nat k <= street_k street)%N ->
  metric_step F fadd fdiv fle two fminpos street dist k = Some m ->
  exists rest, Permutation (map fst m ++ rest) (pairs_of (abs_all street)).
Proof. exact C13_Metric.metric_keys_sub. Qed.
Print Assumptions C13_metric_keys_sub.
