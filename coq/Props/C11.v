(* Props/C11.v -- property C11: the abstract action menu (Game::choices / actionize) at every
   reachable decision node.  (C11_pack is proved with the codecs, property C15.) *)
From Coq Require Import ZArith NArith List Bool.
From RP Require Import Base.Bits Gen.GenLib Gen.GenAbstract Model.Codec Model.Showdown Model.Game
                       Spec.SpecNLHE Spec.SpecGameInv Spec.SpecMenu
                       Proofs.C03_Examples Proofs.C11_Menu.
Import ListNotations.
Open Scope Z_scope.

(* the menu exists (no panic), is non-empty and has no duplicate edge *)
Theorem C11_menu : forall d hs g n i,
  wf_holes d hs -> reachable d hs g -> turn_of g = Choice i -> 0 <= n ->
  exists es, choices g n = Some es /\ es <> [] /\ NoDup es.
Proof. exact menu_ok. Qed.
Print Assumptions C11_menu.

(* every edge of the menu translates to an action the engine accepts *)
Theorem C11_accepts : forall d hs g n i es e,
  wf_holes d hs -> reachable d hs g -> turn_of g = Choice i ->
  choices g n = Some es -> In e es -> is_allowed d g (actionize g e) = Some true.
Proof. exact menu_accepts. Qed.
Print Assumptions C11_accepts.

(* larger pot fractions give larger (or equal) amounts; an all-in counts as the stack.
   Any state with a non-negative pot and to_raise <= to_shove ... *)
Theorem C11_monotone : forall g n1 d1 n2 d2,
  0 <= pot g -> to_raise g <= to_shove g -> 0 < d1 -> 0 < d2 -> n1 * d2 <= n2 * d1 ->
  amount_of (actionize g (ERaise n1 d1)) <= amount_of (actionize g (ERaise n2 d2)).
Proof. exact monotone. Qed.
Print Assumptions C11_monotone.
(* ... in particular every reachable decision node whose menu offers a raise edge *)
Theorem C11_monotone_menu : forall d hs g n i es n1 d1 n2 d2,
  wf_holes d hs -> reachable d hs g -> turn_of g = Choice i -> choices g n = Some es ->
  In (ERaise n1 d1) es -> 0 < d1 -> 0 < d2 -> n1 * d2 <= n2 * d1 ->
  amount_of (actionize g (ERaise n1 d1)) <= amount_of (actionize g (ERaise n2 d2)).
Proof. exact monotone_menu. Qed.
Print Assumptions C11_monotone_menu.

(* snapping of bet = pot * num / den into [to_raise, to_shove] (definitional) ... *)
Theorem C11_snap : forall g num den,
  let bet := pot g * num / den in
  (to_shove g <= bet -> actionize g (ERaise num den) = Shove (to_shove g)) /\
  (bet < to_shove g -> bet <= to_raise g -> actionize g (ERaise num den) = Raise (to_raise g)) /\
  (bet < to_shove g -> to_raise g < bet -> actionize g (ERaise num den) = Raise bet) /\
  (to_raise g <= to_shove g ->
   to_raise g <= amount_of (actionize g (ERaise num den)) <= to_shove g).
Proof. exact snap. Qed.
Print Assumptions C11_snap.
(* ... and when a raise edge is on the menu of a reachable decision node the amount lies in
   [to_raise, to_shove]; a Raise stays below the stack, a Shove is exactly the stack *)
Theorem C11_snap_menu : forall d hs g n i es num den,
  wf_holes d hs -> reachable d hs g -> turn_of g = Choice i ->
  choices g n = Some es -> In (ERaise num den) es ->
  to_raise g < to_shove g /\
  to_raise g <= amount_of (actionize g (ERaise num den)) <= to_shove g /\
  (forall x, actionize g (ERaise num den) = Raise x -> to_raise g <= x <= to_shove g - 1) /\
  (forall x, actionize g (ERaise num den) = Shove x -> x = to_shove g).
Proof. exact snap_menu. Qed.
Print Assumptions C11_snap_menu.

(* ---------- examples: the hypotheses are satisfiable ---------- *)
(* the root is a reachable decision node; its menu: the ten pre-flop raise sizes, all-in, call,
   fold; 1/4 and 1/1 pot snap up to the minimum raise 3, 4/1 pot is Raise 12 *)
Example C11_hyps_menu :
  exists g0, root Standard ex_holes = Some g0 /\ reachable Standard ex_holes g0 /\ turn_of g0 = Choice 1 /\
    choices g0 0 = Some (map (fun o => ERaise (fst o) (snd o)) PREF_RAISES ++ [EShove; ECall; EFold]) /\
    map (actionize g0) [ERaise 1 4; ERaise 1 1; ERaise 4 1; EShove; ECall; EFold]
    = [Raise 3; Raise 3; Raise 12; Shove 99; Call 1; Fold].
Proof. exact ex_menu_root. Qed.
Example C11_hyps_wf : wf_holes Standard ex_holes.
Proof. exact ex_holes_wf. Qed.
Example C11_hyps_monotone : 0 < 2 /\ 0 < 1 /\ 1 * 1 <= 1 * 2.
Proof. repeat split; reflexivity || discriminate. Qed.

(* ===== the binary32 translation of a pot fraction is the exact floor (Flocq) ===== *)
From RP Require Model.BetF32 Proofs.C11_BetF32.
Theorem C11_bet_f32_is_floor : forall pot num den,
  (0 <= pot <= GenLib.N_PLAYERS * GenLib.STACK)%Z -> In (num, den) BetF32.all_odds ->
  BetF32.bet_f32 pot num den = Game.bet_of_odds pot num den.
Proof. exact C11_BetF32.bet_is_floor. Qed.
Print Assumptions C11_bet_f32_is_floor.

(* ===== the menu fits the 64-bit Path form ===== *)
From RP Require Spec.SpecCodec Proofs.C11_Pack.
(* every menu the engine produces at a reachable decision node has at most 16 edges, each one an
   edge of the abstraction: exactly the hypotheses of the Path codec theorem C15_path ... *)
Theorem C11_menu_packs : forall d hs g n i es,
  wf_holes d hs -> reachable d hs g -> turn_of g = Choice i -> 0 <= n -> choices g n = Some es ->
  (length es <= 16)%nat /\ Forall (fun e => In e SpecCodec.all_edges) es.
Proof. exact C11_Pack.menu_packs. Qed.
Print Assumptions C11_menu_packs.
(* ... in fact at any state and raise count for which Game::choices does not panic *)
Theorem C11_choices_pack : forall g n es, choices g n = Some es ->
  (length es <= 16)%nat /\ Forall (fun e => In e SpecCodec.all_edges) es.
Proof. exact C11_Pack.choices_pack. Qed.
Print Assumptions C11_choices_pack.
(* ... so the menu round-trips through Path (u64): C15_path instantiated *)
Theorem C11_menu_path_roundtrip : forall d hs g n i es,
  wf_holes d hs -> reachable d hs g -> turn_of g = Choice i -> 0 <= n -> choices g n = Some es ->
  exists p, path_pack es = Some p /\ (p < 2 ^ 64)%N /\ path_unpack p = Some es.
Proof. exact C11_Pack.menu_path_roundtrip. Qed.
Print Assumptions C11_menu_path_roundtrip.
(* hypotheses satisfiable: C11_hyps_menu above (the root, whose menu has 13 edges) *)
Example C11_hyps_pack :
  exists g0 es, root Standard ex_holes = Some g0 /\ reachable Standard ex_holes g0 /\
    turn_of g0 = Choice 1 /\ choices g0 0 = Some es /\ length es = 13%nat /\
    path_pack es = Some 639910880647286%N.
Proof.
  destruct ex_menu_root as (g0 & Hr & Hre & Ht & Hc & _).
  exists g0. eexists. split; [exact Hr|]. split; [exact Hre|]. split; [exact Ht|].
  split; [exact Hc|]. split; vm_compute; reflexivity.
Qed.
