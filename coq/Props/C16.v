(* Props/C16.v -- property C16 (provisional instances through the generated fix flags; the general theorems are being added) *)
From Coq Require Import NArith List.
From RP Require Import Gen.GenFixes Model.Codec Model.Parse.
Import ListNotations.
Open Scope N_scope.
Theorem C16_witnesses_instance :
  parse_card [233] = PErr /\ parse_action [] = PErr /\ parse_action [32; 9] = PErr /\
  (* "As Ks ~ As Qd Jh" *)
  parse_obs [65; 115; 32; 75; 115; 32; 126; 32; 65; 115; 32; 81; 100; 32; 74; 104] = PErr /\
  parse_card (print_card 51) = POk 51.
Proof. vm_compute. repeat split; reflexivity. Qed.
Print Assumptions C16_witnesses_instance.
