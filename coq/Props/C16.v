(* Props/C16.v -- property C16: parsing ANY string as a card, hand, hole, observation, street,
   bucket (abstraction), action or player turn returns a value or an error and never aborts;
   a returned observation has two private cards, a legal number of board cards and no card in
   both; every value's printed form parses back to an equal value.
   A string ([str]) is a list of arbitrary code points ([N]); no assumption is made on them.
   Statements use only Base/ Model/ Gen/ Spec/ definitions; proofs live in Proofs/. *)
From Coq Require Import NArith ZArith List Bool.
From RP Require Import Base.Bits Gen.GenFixes Model.Codec Model.Parse Spec.SpecCodec Spec.SpecParseVariants.
From RP Require Proofs.C16_Total Proofs.C16_Strings Proofs.C16_RoundTrip Proofs.C16_Examples.
Import ListNotations.
Open Scope N_scope.

(* ---------- 1. no parser aborts, on any string ---------- *)
Theorem C16_total_card : forall s : str, parse_card s <> PPanic.
Proof. exact C16_Total.total_card. Qed.
Print Assumptions C16_total_card.

Theorem C16_total_hand : forall s : str, parse_hand s <> PPanic.
Proof. exact C16_Total.total_hand. Qed.
Print Assumptions C16_total_hand.

Theorem C16_total_hole : forall s : str, parse_hole s <> PPanic.
Proof. exact C16_Total.total_hole. Qed.
Print Assumptions C16_total_hole.

Theorem C16_total_obs : forall s : str, parse_obs s <> PPanic.
Proof. exact C16_Total.total_obs. Qed.
Print Assumptions C16_total_obs.

Theorem C16_total_street : forall s : str, parse_street s <> PPanic.
Proof. exact C16_Total.total_street. Qed.
Print Assumptions C16_total_street.

Theorem C16_total_abs : forall s : str, parse_abs s <> PPanic.
Proof. exact C16_Total.total_abs. Qed.
Print Assumptions C16_total_abs.

Theorem C16_total_action : forall s : str, parse_action s <> PPanic.
Proof. exact C16_Total.total_action. Qed.
Print Assumptions C16_total_action.

Theorem C16_total_turn : forall s : str, parse_turn s <> PPanic.
Proof. exact C16_Total.total_turn. Qed.
Print Assumptions C16_total_turn.

(* ---------- 2. the repairs are necessary ---------- *)
(* The parameterised copies in Spec/SpecParseVariants.v are the model's parsers at the
   generated flag values ... *)
Theorem C16_variants_are_model :
  (forall s, parse_card s = parse_card_with CARD_PARSE_CHECKS_BOUNDARY s) /\
  (forall s, parse_obs s = parse_obs_with OBS_PARSE_CHECKS_DISJOINT s) /\
  (forall s, parse_action s = parse_action_with ACTION_PARSE_CHECKS_EMPTY s).
Proof.
  exact (conj C16_Total.parse_card_with_flag
           (conj C16_Total.parse_obs_with_flag C16_Total.parse_action_with_flag)).
Qed.
Print Assumptions C16_variants_are_model.

(* ... and with a flag off: "é" (one code point, two bytes) aborts the card parser, the empty
   string aborts the action parser, and "As Ks ~ As Qd Jh" yields an observation holding the
   ace of spades twice. *)
Theorem C16_refuted_without_fixes :
  parse_card_with false [233] = PPanic /\
  parse_action_with false [] = PPanic /\
  exists o, parse_obs_with false
              [65; 115; 32; 75; 115; 32; 126; 32; 65; 115; 32; 81; 100; 32; 74; 104] = POk o /\
            N.land (pocket o) (public o) <> 0.
Proof.
  exact (conj C16_Total.refuted_card (conj C16_Total.refuted_action C16_Total.refuted_obs)).
Qed.
Print Assumptions C16_refuted_without_fixes.

(* ---------- 3. returned observations and holes are valid ---------- *)
Theorem C16_obs_valid : forall s o, parse_obs s = POk o ->
  hand_size (pocket o) = 2 /\
  (hand_size (public o) = 0 \/ hand_size (public o) = 3 \/
   hand_size (public o) = 4 \/ hand_size (public o) = 5) /\
  N.land (pocket o) (public o) = 0.
Proof. exact C16_Total.obs_valid. Qed.
Print Assumptions C16_obs_valid.
Example C16_obs_valid_hyp : parse_obs C16_Examples.ex_obs_str = POk C16_Examples.ex_obs_val.
Proof. exact C16_Examples.ex_parse_obs. Qed.

Theorem C16_hole_valid : forall s h, parse_hole s = POk h -> hand_size h = 2.
Proof. exact C16_Total.hole_valid. Qed.
Print Assumptions C16_hole_valid.
Example C16_hole_valid_hyp : parse_hole C16_Examples.ex_hole_str = POk (2 ^ 51 + 2 ^ 47).
Proof. exact C16_Examples.ex_parse_hole. Qed.

(* ---------- 4. round trips ---------- *)
Theorem C16_rt_card : forall c, c < 52 -> parse_card (print_card c) = POk c.
Proof. exact C16_RoundTrip.rt_card. Qed.
Print Assumptions C16_rt_card.
Example C16_rt_card_hyp : 51 < 52.
Proof. exact C16_Examples.ex_card_lt. Qed.

Theorem C16_rt_street : forall z, (0 <= z <= 3)%Z -> parse_street (print_street z) = POk z.
Proof. exact C16_RoundTrip.rt_street. Qed.
Print Assumptions C16_rt_street.
Example C16_rt_street_hyp : (0 <= 2 <= 3)%Z.
Proof. exact C16_Examples.ex_street. Qed.

Theorem C16_rt_turn : forall t, wf_turn t -> parse_turn (print_turn t) = POk t.
Proof. exact C16_RoundTrip.rt_turn. Qed.
Print Assumptions C16_rt_turn.
Example C16_rt_turn_hyp : wf_turn (TChoice (2 ^ 64 - 1)) /\ wf_turn TTerminal.
Proof. exact C16_Examples.ex_turn. Qed.

Theorem C16_rt_hand : forall h, h < 2 ^ 52 -> parse_hand (print_hand h) = POk h.
Proof. exact C16_RoundTrip.rt_hand. Qed.
Print Assumptions C16_rt_hand.
Example C16_rt_hand_hyp : 2 ^ 52 - 1 < 2 ^ 52.
Proof. exact C16_Examples.ex_hand_lt. Qed.

Theorem C16_rt_hole : forall h, h < 2 ^ 52 -> hand_size h = 2 -> parse_hole (print_hand h) = POk h.
Proof. exact C16_RoundTrip.rt_hole. Qed.
Print Assumptions C16_rt_hole.
Example C16_rt_hole_hyp : 2 ^ 51 + 2 ^ 47 < 2 ^ 52 /\ hand_size (2 ^ 51 + 2 ^ 47) = 2.
Proof. exact C16_Examples.ex_hole. Qed.

Theorem C16_rt_obs : forall o, wf_obs o -> parse_obs (print_obs o) = POk o.
Proof. exact C16_RoundTrip.rt_obs. Qed.
Print Assumptions C16_rt_obs.
Example C16_rt_obs_hyp :
  wf_obs C15_Examples.ex_obs /\ wf_obs C15_Examples.ex_obs0 /\ wf_obs C16_Examples.ex_obs_val.
Proof. exact C16_Examples.ex_obs_wfs. Qed.

Theorem C16_rt_action : forall a, wf_action' a -> parse_action (print_action a) = POk a.
Proof. exact C16_RoundTrip.rt_action. Qed.
Print Assumptions C16_rt_action.
Example C16_rt_action_hyp :
  wf_action' (Raise (-32768)) /\ wf_action' (Call 32767) /\
  wf_action' (Draw (2 ^ 52 - 1)) /\ wf_action' (Draw 0).
Proof. exact C16_Examples.ex_actions. Qed.

Theorem C16_rt_abs : forall s i, s <= 3 -> i < 4096 ->
  forall a, abs_make s i = Some a -> parse_abs (print_abs a) = POk a.
Proof. exact C16_RoundTrip.rt_abs. Qed.
Print Assumptions C16_rt_abs.
Example C16_rt_abs_hyp : 2 <= 3 /\ 4095 < 4096 /\ exists a, abs_make 2 4095 = Some a.
Proof. exact C16_Examples.ex_abs. Qed.

(* ---------- reusable facts about the integer printers / parsers ---------- *)
Theorem C16_dec_roundtrip : forall n, n < 2 ^ 64 -> parse_unsigned 10 (print_nat n) = Some n.
Proof. exact C16_Strings.parse_unsigned_print_nat. Qed.
Print Assumptions C16_dec_roundtrip.

Theorem C16_i16_roundtrip : forall z, (-32768 <= z <= 32767)%Z -> parse_i16 (print_int z) = Some z.
Proof. exact C16_Strings.parse_i16_print_int. Qed.
Print Assumptions C16_i16_roundtrip.

Theorem C16_hex_roundtrip : forall n, n < 2 ^ 64 -> parse_unsigned 16 (hex_digits 16 n []) = Some n.
Proof. exact C16_Strings.parse_unsigned_hex. Qed.
Print Assumptions C16_hex_roundtrip.
