(* Props/C15.v -- property C15 (provisional: full set of theorems is being added) *)
From Coq Require Import NArith List.
From RP Require Import Base.Bits Model.Codec Gen.GenAbstract.
Import ListNotations.
Open Scope N_scope.

Definition all_edges0 : list edge := [EDraw; EFold; ECheck; ECall; EShove] ++ map (fun p => ERaise (fst p) (snd p)) GRID.
Definition edge_rt (e : edge) : bool :=
  match edge_to_u8 e with
  | Some c => match edge_of_u8 c with Some e' => match edge_to_u8 e' with Some c' => N.eqb c c' | None => false end | None => false end
  | None => false end.
Theorem C15_edge_u8_codes_provisional : forallb edge_rt all_edges0 = true.
Proof. vm_compute. reflexivity. Qed.
Print Assumptions C15_edge_u8_codes_provisional.
