(* Props/C15.v -- property C15: the integer codecs are lossless.
   Statements use only Base/ Model/ Gen/ Spec/ definitions; proofs live in Proofs/. *)
From Coq Require Import NArith ZArith List Bool Sorted.
From RP Require Import Base.Bits Gen.GenAbstract Model.Codec Spec.SpecCodec.
From RP Require Proofs.BitsLemmas Proofs.C15_Finite Proofs.C15_Hand Proofs.C15_Action
                Proofs.C15_Path Proofs.C15_Examples.
Import ListNotations.
Open Scope N_scope.

(* ---------- 1. Card <-> u32 ---------- *)
Theorem C15_card_u32 : forall c, c < 52 ->
  exists u, card_to_u32 c = Some u /\ card_of_u32 u = Some c.
Proof. exact C15_Finite.card_u32. Qed.
Print Assumptions C15_card_u32.
Example C15_card_u32_hyp : 51 < 52.
Proof. exact C15_Examples.ex_card. Qed.

(* ---------- 2. Hand <-> u64, Hand <-> Vec<Card> ---------- *)
Theorem C15_hand_u64 : forall d h, N.land h (hand_mask d) = h -> hand_of_u64 d (hand_to_u64 h) = h.
Proof. exact C15_Hand.hand_u64. Qed.
Print Assumptions C15_hand_u64.
Example C15_hand_u64_hyp :
  N.land C15_Examples.ex_hand_short (hand_mask Short) = C15_Examples.ex_hand_short.
Proof. exact C15_Examples.ex_hand_short_ok. Qed.

Theorem C15_hand_cards : forall h, h < 2 ^ 64 -> hand_of_cards (hand_cards h) = Some h.
Proof. exact C15_Hand.hand_cards_roundtrip. Qed.
Print Assumptions C15_hand_cards.
Example C15_hand_cards_hyp : 2 ^ 63 + 5 < 2 ^ 64.
Proof. exact C15_Examples.ex_hand64. Qed.

Theorem C15_hand_cards_spec : forall h i, h < 2 ^ 64 ->
  (In i (hand_cards h) <-> N.testbit h i = true).
Proof. exact C15_Hand.hand_cards_spec. Qed.
Print Assumptions C15_hand_cards_spec.

Theorem C15_hand_cards_sorted : forall h, StronglySorted N.lt (hand_cards h).
Proof. exact C15_Hand.hand_cards_sorted. Qed.
Print Assumptions C15_hand_cards_sorted.

Theorem C15_hand_cards_lt64 : forall h, Forall (fun c => c < 64) (hand_cards h).
Proof. exact C15_Hand.hand_cards_lt64. Qed.
Print Assumptions C15_hand_cards_lt64.

Theorem C15_hand_size_length : forall h, hand_size h = N.of_nat (length (hand_cards h)).
Proof. exact C15_Hand.hand_size_length. Qed.
Print Assumptions C15_hand_size_length.

(* ---------- 3. Observation <-> i64 ---------- *)
Theorem C15_obs_i64 : forall o, wf_obs o -> obs_of_i64 (obs_to_i64 o) = Some o.
Proof. exact C15_Hand.obs_i64. Qed.
Print Assumptions C15_obs_i64.
Example C15_obs_i64_hyp : wf_obs C15_Examples.ex_obs /\ wf_obs C15_Examples.ex_obs0.
Proof. exact (conj C15_Examples.ex_obs_wf C15_Examples.ex_obs0_wf). Qed.

Theorem C15_obs_street : forall o, wf_obs o ->
  street_of_obs_code (obs_to_i64 o) = obs_street o /\ obs_street o <> None.
Proof. exact C15_Hand.obs_street_code. Qed.
Print Assumptions C15_obs_street.

Theorem C15_obs_inj : forall o1 o2, wf_obs o1 -> wf_obs o2 ->
  obs_to_i64 o1 = obs_to_i64 o2 -> o1 = o2.
Proof. exact C15_Hand.obs_inj. Qed.
Print Assumptions C15_obs_inj.

(* ---------- 4. Action <-> u32 ---------- *)
Theorem C15_action_u32 : forall a, wf_action a -> action_of_u32 (action_to_u32 a) = Some a.
Proof. exact C15_Action.action_u32. Qed.
Print Assumptions C15_action_u32.
Example C15_action_u32_hyp :
  wf_action (Raise (-32768)) /\ wf_action (Blind 32767) /\ wf_action (Draw (2 ^ 51 + 2 ^ 50 + 1)).
Proof.
  exact (conj C15_Examples.ex_action_raise_wf
           (conj C15_Examples.ex_action_blind_wf C15_Examples.ex_action_draw_wf)).
Qed.

Theorem C15_action_inj : forall a1 a2, wf_action a1 -> wf_action a2 ->
  action_to_u32 a1 = action_to_u32 a2 -> a1 = a2.
Proof. exact C15_Action.action_inj. Qed.
Print Assumptions C15_action_inj.

(* ---------- 5. Edge <-> u8 / u64 ---------- *)
Theorem C15_edge_u8 : forall e, In e all_edges ->
  exists c, edge_to_u8 e = Some c /\ 1 <= c <= 15 /\ edge_of_u8 c = Some e.
Proof. exact C15_Finite.edge_u8. Qed.
Print Assumptions C15_edge_u8.
Example C15_edge_hyp : In (ERaise 4 1) all_edges.
Proof. exact C15_Examples.ex_edge_in. Qed.

Theorem C15_edge_u64 : forall e, In e all_edges -> edge_of_u64 (edge_to_u64 e) = Some e.
Proof. exact C15_Finite.edge_u64. Qed.
Print Assumptions C15_edge_u64.

Theorem C15_edge_u8_inj : forall e1 e2, In e1 all_edges -> In e2 all_edges ->
  edge_to_u8 e1 = edge_to_u8 e2 -> e1 = e2.
Proof. exact C15_Finite.edge_u8_inj. Qed.
Print Assumptions C15_edge_u8_inj.

Theorem C15_edge_u64_inj : forall e1 e2, In e1 all_edges -> In e2 all_edges ->
  edge_to_u64 e1 = edge_to_u64 e2 -> e1 = e2.
Proof. exact C15_Finite.edge_u64_inj. Qed.
Print Assumptions C15_edge_u64_inj.

(* ---------- 6. Path <-> Vec<Edge> ---------- *)
Theorem C15_path : forall es, (length es <= 16)%nat -> Forall (fun e => In e all_edges) es ->
  exists p, path_pack es = Some p /\ p < 2 ^ 64 /\ path_unpack p = Some es.
Proof. exact C15_Path.path_roundtrip. Qed.
Print Assumptions C15_path.
Example C15_path_hyp :
  (length C15_Examples.ex_path <= 16)%nat /\ Forall (fun e => In e all_edges) C15_Examples.ex_path.
Proof. exact (conj C15_Examples.ex_path_len C15_Examples.ex_path_in). Qed.

Theorem C15_path_inj : forall es1 es2,
  (length es1 <= 16)%nat -> Forall (fun e => In e all_edges) es1 ->
  (length es2 <= 16)%nat -> Forall (fun e => In e all_edges) es2 ->
  path_pack es1 = path_pack es2 -> es1 = es2.
Proof. exact C15_Path.path_inj. Qed.
Print Assumptions C15_path_inj.

(* ---------- 7. Abstraction <-> u64 / i64 ---------- *)
Theorem C15_abs : forall s i, s <= 3 -> i < 4096 ->
  exists a, abs_make s i = Some a /\ abs_of_u64 (abs_to_u64 a) = Some a /\
            abs_of_i64 (abs_to_i64 a) = Some a /\ abs_street a = Some s /\ abs_index a = i.
Proof. exact C15_Finite.abs_roundtrip. Qed.
Print Assumptions C15_abs.
Example C15_abs_hyp : 2 <= 3 /\ 4095 < 4096.
Proof. exact C15_Examples.ex_abs. Qed.

Theorem C15_abs_inj : forall s i s' i', s <= 3 -> s' <= 3 -> i < 4096 -> i' < 4096 ->
  abs_make s i = abs_make s' i' -> s = s' /\ i = i'.
Proof. exact C15_Finite.abs_make_inj. Qed.
Print Assumptions C15_abs_inj.

(* ---------- 8. Pair keys ---------- *)
(* [N.to_nat 23474] is the nat 23474 (convertible with the literal [23474%nat], written this
   way to avoid a large unary numeral in the source). *)
Theorem C15_pair_keys :
  NoDup learned_pair_keys /\ ~ In 0 learned_pair_keys /\
  length learned_pair_keys = N.to_nat 23474.
Proof. exact C15_Finite.pair_keys_nat. Qed.
Print Assumptions C15_pair_keys.

Theorem C15_pair_keys_N :
  NoDup learned_pair_keys /\ ~ In 0 learned_pair_keys /\
  N.of_nat (length learned_pair_keys) = 23474.
Proof. exact C15_Finite.pair_keys. Qed.
Print Assumptions C15_pair_keys_N.

(* ---------- reusable bit-level facts (Base/Bits.v) ---------- *)
Theorem C15_popcount64_length : forall h, popcount64 h = N.of_nat (length (set_bits64 h)).
Proof. exact BitsLemmas.popcount64_length. Qed.
Print Assumptions C15_popcount64_length.

Theorem C15_mask_of_set_bits64 : forall h, h < 2 ^ 64 -> mask_of_bits (set_bits64 h) = h.
Proof. exact BitsLemmas.mask_of_set_bits64. Qed.
Print Assumptions C15_mask_of_set_bits64.

Theorem C15_set_bits64_spec : forall h i, h < 2 ^ 64 ->
  (In i (set_bits64 h) <-> N.testbit h i = true).
Proof. exact BitsLemmas.set_bits64_spec. Qed.
Print Assumptions C15_set_bits64_spec.

Theorem C15_tz64_spec : forall x, x < 2 ^ 64 -> x <> 0 ->
  tz64 x < 64 /\ N.testbit x (tz64 x) = true /\ (forall j, j < tz64 x -> N.testbit x j = false).
Proof. exact BitsLemmas.tz64_spec. Qed.
Print Assumptions C15_tz64_spec.

(* ---------- Card <-> u8, Card <-> (Rank, Suit) ---------- *)
From RP Require Proofs.C15_Card.
(* In Rust `Card` is a newtype over u8 and From<Card> for u8 / From<u8> for Card return that byte
   unchanged; the model represents a card BY that byte, so there is no u8 codec function whose
   round trip could be stated (it is the identity by construction, and trivially injective).
   What the byte must support is the (rank, suit) reading used everywhere else:
   Card::rank / Card::suit / Card::from((Rank, Suit)) are lossless and panic-free on the deck. *)
Theorem C15_card_rank_suit : forall c, c < 52 ->
  rank_of_u8 (card_rank c) = Some (card_rank c) /\ card_rank c <= 12 /\ card_suit c < 4 /\
  card_of_rank_suit (card_rank c) (card_suit c) = c.
Proof. exact C15_Card.card_split. Qed.
Print Assumptions C15_card_rank_suit.
Theorem C15_card_of_rank_suit : forall r s, r <= 12 -> s < 4 ->
  card_of_rank_suit r s < 52 /\ card_of_rank_suit r s < 256 /\
  card_rank (card_of_rank_suit r s) = r /\ card_suit (card_of_rank_suit r s) = s.
Proof. exact C15_Card.card_join. Qed.
Print Assumptions C15_card_of_rank_suit.
Theorem C15_card_rank_suit_inj : forall c c',
  card_rank c = card_rank c' -> card_suit c = card_suit c' -> c = c'.
Proof. exact C15_Card.card_rank_suit_inj. Qed.
Print Assumptions C15_card_rank_suit_inj.
Example C15_card_rank_suit_hyp :
  39 < 52 /\ card_rank 39 = 9 /\ card_suit 39 = 3 /\ 9 <= 12 /\ 3 < 4 /\ card_of_rank_suit 9 3 = 39.
Proof. repeat split; vm_compute; congruence. Qed.
