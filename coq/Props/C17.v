(* Props/C17.v -- property C17: the table files are well-formed PostgreSQL binary COPY streams whose
   fields, in COPY-column order, carry the values written, and loading a saved table gives back the
   same table (same keys, bit-identical values).
   Statements use only Base/ Gen/ Model/ Spec/ definitions; proofs live in Proofs/. *)
From Coq Require Import NArith ZArith List Bool.
From RP Require Import Base.Bits Gen.GenTables Model.Codec Model.Pgcopy.
From RP Require Import Spec.SpecCodec Spec.SpecPgcopy Spec.SpecTables.
From RP Require Proofs.C17_Bytes Proofs.C17_Layout Proofs.C17_Pg Proofs.C17_Tables Proofs.C17_Examples.
Import ListNotations.
Open Scope N_scope.

(* ---------- 1. save / load round trip ---------- *)
Theorem C17_roundtrip_metric : forall t, wf_metric_table t -> sorted_strict t ->
  load_metric (save_metric t) = LOk t.
Proof. exact C17_Tables.roundtrip_metric. Qed.
Print Assumptions C17_roundtrip_metric.
Example C17_metric_hyp :
  wf_metric_table C17_Examples.ex_metric /\ sorted_strict C17_Examples.ex_metric.
Proof. exact (conj C17_Examples.ex_metric_wf C17_Examples.ex_metric_sorted). Qed.
Example C17_metric_bytes : save_metric C17_Examples.ex_metric =
  [80; 71; 67; 79; 80; 89; 10; 255; 13; 10; 0; 0; 0; 0; 0; 0; 0; 0; 0;
   0; 2; 0; 0; 0; 8; 0; 0; 0; 0; 0; 0; 0; 5; 0; 0; 0; 4; 63; 128; 0; 0;
   0; 2; 0; 0; 0; 8; 128; 0; 0; 0; 0; 0; 0; 7; 0; 0; 0; 4; 191; 128; 0; 0;
   255; 255].
Proof. exact C17_Examples.ex_metric_bytes. Qed.

Theorem C17_roundtrip_lookup : forall t, wf_lookup_table t -> sorted_strict t ->
  load_lookup (save_lookup t) = LOk t.
Proof. exact C17_Tables.roundtrip_lookup. Qed.
Print Assumptions C17_roundtrip_lookup.
Example C17_lookup_hyp :
  wf_lookup_table C17_Examples.ex_lookup /\ sorted_strict C17_Examples.ex_lookup.
Proof. exact (conj C17_Examples.ex_lookup_wf C17_Examples.ex_lookup_sorted). Qed.
Example C17_lookup_bytes : save_lookup C17_Examples.ex_lookup =
  [80; 71; 67; 79; 80; 89; 10; 255; 13; 10; 0; 0; 0; 0; 0; 0; 0; 0; 0;
   0; 2; 0; 0; 0; 8; 0; 2; 3; 4; 50; 51; 1; 52; 0; 0; 0; 8; 2; 230; 69; 58; 195; 116; 208; 17;
   0; 2; 0; 0; 0; 8; 0; 0; 0; 0; 0; 0; 51; 52; 0; 0; 0; 8; 0; 0; 0; 0; 0; 0; 0; 0;
   255; 255].
Proof. exact C17_Examples.ex_lookup_bytes. Qed.

Theorem C17_roundtrip_profile : forall t, wf_profile_table t -> sorted_strict t ->
  load_profile (save_profile t) = LOk t.
Proof. exact C17_Tables.roundtrip_profile. Qed.
Print Assumptions C17_roundtrip_profile.
Example C17_profile_hyp :
  wf_profile_table C17_Examples.ex_profile /\ sorted_strict C17_Examples.ex_profile.
Proof. exact (conj C17_Examples.ex_profile_wf C17_Examples.ex_profile_sorted). Qed.
Example C17_profile_bytes : save_profile C17_Examples.ex_profile =
  [80; 71; 67; 79; 80; 89; 10; 255; 13; 10; 0; 0; 0; 0; 0; 0; 0; 0; 0;
   0; 6; 0; 0; 0; 8; 0; 0; 0; 0; 0; 0; 0; 33; 0; 0; 0; 8; 1; 176; 248; 148; 36; 53; 176; 5;
         0; 0; 0; 8; 0; 0; 0; 0; 0; 0; 6; 66; 0; 0; 0; 8; 0; 0; 0; 0; 0; 0; 0; 3;
         0; 0; 0; 4; 63; 128; 0; 0; 0; 0; 0; 4; 63; 0; 0; 0;
   0; 6; 0; 0; 0; 8; 0; 0; 0; 0; 0; 0; 0; 33; 0; 0; 0; 8; 1; 176; 248; 148; 36; 53; 176; 5;
         0; 0; 0; 8; 0; 0; 0; 0; 0; 0; 6; 66; 0; 0; 0; 8; 0; 0; 0; 0; 0; 0; 16; 12;
         0; 0; 0; 4; 191; 128; 0; 0; 0; 0; 0; 4; 62; 128; 0; 0;
   255; 255].
Proof. exact C17_Examples.ex_profile_bytes. Qed.

(* which edges satisfy the side condition of wf_profile_entry *)
Theorem C17_wf_edge_plain :
  wf_edge EDraw /\ wf_edge EFold /\ wf_edge ECheck /\ wf_edge ECall /\ wf_edge EShove.
Proof. exact C17_Tables.wf_edge_plain. Qed.
Print Assumptions C17_wf_edge_plain.
Theorem C17_wf_edge_raise : forall n d, (0 <= n <= 255)%Z -> (0 <= d <= 255)%Z -> wf_edge (ERaise n d).
Proof. exact C17_Tables.wf_edge_raise. Qed.
Print Assumptions C17_wf_edge_raise.
Theorem C17_wf_edge_all_edges : forall e, In e all_edges -> wf_edge e.
Proof. exact C17_Tables.wf_edge_all_edges. Qed.
Print Assumptions C17_wf_edge_all_edges.

(* ---------- 2. the file is a well-formed binary COPY stream with the declared column widths ---------- *)
Theorem C17_wellformed_metric : forall t, wf_metric_table t ->
  exists tuples, pg_parse (save_metric t) = Some tuples /\ length tuples = length t /\
                 Forall (fun row => typed_ok METRIC_COLUMN_TYPES row = true) tuples.
Proof. exact C17_Tables.wellformed_metric. Qed.
Print Assumptions C17_wellformed_metric.

Theorem C17_wellformed_lookup : forall t, wf_lookup_table t ->
  exists tuples, pg_parse (save_lookup t) = Some tuples /\ length tuples = length t /\
                 Forall (fun row => typed_ok LOOKUP_COLUMN_TYPES row = true) tuples.
Proof. exact C17_Tables.wellformed_lookup. Qed.
Print Assumptions C17_wellformed_lookup.

Theorem C17_wellformed_profile : forall t, wf_profile_table t ->
  exists tuples, pg_parse (save_profile t) = Some tuples /\ length tuples = length t /\
                 Forall (fun row => typed_ok PROFILE_COLUMN_TYPES row = true) tuples.
Proof. exact C17_Tables.wellformed_profile. Qed.
Print Assumptions C17_wellformed_profile.

Theorem C17_wellformed_transitions : forall rows, Forall wf_transitions_row rows ->
  exists tuples, pg_parse (save_bytes transitions_layout rows) = Some tuples /\
                 length tuples = length rows /\
                 Forall (fun row => typed_ok TRANSITIONS_COLUMN_TYPES row = true) tuples.
Proof. exact C17_Tables.wellformed_transitions. Qed.
Print Assumptions C17_wellformed_transitions.
Example C17_transitions_hyp : Forall wf_transitions_row C17_Examples.ex_transitions.
Proof. exact C17_Examples.ex_transitions_wf. Qed.

(* ---------- 3. the values are written in the order of the COPY column list ---------- *)
Theorem C17_columns :
  columns_eqb PROFILE_WRITER_FIELDS PROFILE_COPY_COLUMNS = true /\
  columns_eqb METRIC_WRITER_FIELDS METRIC_COPY_COLUMNS = true /\
  columns_eqb LOOKUP_WRITER_FIELDS LOOKUP_COPY_COLUMNS = true /\
  columns_eqb TRANSITIONS_WRITER_FIELDS TRANSITIONS_COPY_COLUMNS = true.
Proof. exact C17_Pg.columns_all. Qed.
Print Assumptions C17_columns.

(* the boolean test is equality of the column lists *)
Theorem C17_columns_eqb_sound : forall a b, columns_eqb a b = true -> a = b.
Proof. exact C17_Pg.columns_eqb_eq. Qed.
Print Assumptions C17_columns_eqb_sound.

(* ---------- 4. field i of tuple k is the big-endian encoding of component i of X_encode (entry k) ---------- *)
Theorem C17_field_values_metric : forall t tuples, wf_metric_table t ->
  pg_parse (save_metric t) = Some tuples ->
  forall k i e row, nth_error t k = Some e -> nth_error tuples k = Some row ->
    (i < length METRIC_COPY_COLUMNS)%nat ->
    exists w v, nth_error METRIC_WRITER_WIDTHS i = Some w /\ nth_error (metric_encode e) i = Some v /\
                nth_error row i = Some (w, be w v) /\ be_value (be w v) = v.
Proof. exact C17_Tables.field_values_metric. Qed.
Print Assumptions C17_field_values_metric.

Theorem C17_field_values_lookup : forall t tuples, wf_lookup_table t ->
  pg_parse (save_lookup t) = Some tuples ->
  forall k i e row, nth_error t k = Some e -> nth_error tuples k = Some row ->
    (i < length LOOKUP_COPY_COLUMNS)%nat ->
    exists w v, nth_error LOOKUP_WRITER_WIDTHS i = Some w /\ nth_error (lookup_encode e) i = Some v /\
                nth_error row i = Some (w, be w v) /\ be_value (be w v) = v.
Proof. exact C17_Tables.field_values_lookup. Qed.
Print Assumptions C17_field_values_lookup.

Theorem C17_field_values_profile : forall t tuples, wf_profile_table t ->
  pg_parse (save_profile t) = Some tuples ->
  forall k i e row, nth_error t k = Some e -> nth_error tuples k = Some row ->
    (i < length PROFILE_COPY_COLUMNS)%nat ->
    exists w v, nth_error PROFILE_WRITER_WIDTHS i = Some w /\ nth_error (profile_encode e) i = Some v /\
                nth_error row i = Some (w, be w v) /\ be_value (be w v) = v.
Proof. exact C17_Tables.field_values_profile. Qed.
Print Assumptions C17_field_values_profile.

(* the components of profile_encode, by name: past, present, future, edge code, regret, policy *)
Theorem C17_profile_encode : forall e, wf_profile_entry e ->
  exists past ar present future ed r p,
    e = ([past; ar; present; future] ++ edge_key ed, [r; p]) /\
    profile_encode e = [past; present; future; edge_to_u64 ed; r; p].
Proof. exact C17_Tables.profile_encode_wf. Qed.
Print Assumptions C17_profile_encode.

(* ---------- generic form (any layout satisfying the side conditions) ---------- *)
Theorem C17_layouts_ok :
  layout_ok profile_layout /\ layout_ok metric_layout /\ layout_ok lookup_layout /\
  layout_ok transitions_layout /\
  l_strict profile_layout = true /\ l_strict metric_layout = true /\ l_strict lookup_layout = true /\
  l_strict transitions_layout = true.
Proof.
  exact (conj C17_Layout.profile_layout_ok (conj C17_Layout.metric_layout_ok
        (conj C17_Layout.lookup_layout_ok (conj C17_Layout.transitions_layout_ok
        (conj C17_Layout.profile_strict (conj C17_Layout.metric_strict
        (conj C17_Layout.lookup_strict C17_Layout.transitions_strict))))))).
Qed.
Print Assumptions C17_layouts_ok.

Theorem C17_load_rows_save : forall L rows, layout_ok L ->
  Forall (fun r => Forall2 (fun w v => v < 256 ^ w) (l_wwidths L) r) rows ->
  load_rows L (save_bytes L rows) = LOk rows.
Proof. exact C17_Layout.load_rows_save. Qed.
Print Assumptions C17_load_rows_save.
