(* Props/C17.v -- property C17 (provisional instances on the generated layouts; the general theorems are being added) *)
From Coq Require Import NArith List.
From RP Require Import Gen.GenTables Model.Pgcopy Spec.SpecPgcopy.
Import ListNotations.
Open Scope N_scope.
Definition ex_metric : list kv := [([5], [1065353216]); ([9], [3212836864])].
Theorem C17_metric_instance :
  load_metric (save_metric ex_metric) = LOk ex_metric /\
  forallb (fun n => match load_metric (firstn n (save_metric ex_metric)) with LError => true | LOk _ => false end)
          (seq 0 (length (save_metric ex_metric))) = true /\
  columns_eqb PROFILE_WRITER_FIELDS PROFILE_COPY_COLUMNS = true.
Proof. vm_compute. repeat split; reflexivity. Qed.
Print Assumptions C17_metric_instance.
