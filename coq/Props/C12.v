(* Props/C12.v -- property C12 (provisional instance over exact rationals; the general theorems are being added) *)
From Coq Require Import NArith ZArith QArith List.
From RP Require Import Model.Emd.
Import ListNotations.
Open Scope Q_scope.
Definition qabs (x : Q) : Q := if Qle_bool 0 x then x else - x.
Definition var := variation Q 0 Qplus Qminus Qdiv qabs (fun n => inject_Z (Z.of_nat n)).
(* two distributions on a three-point grid: sum of |cdf differences| / number of points; symmetric; zero on itself *)
Theorem C12_variation_instance :
  var [1#2; 1#2; 0] [0; 1#2; 1#2] == 1#3 /\ var [0; 1#2; 1#2] [1#2; 1#2; 0] == 1#3 /\ var [1#2; 1#2; 0] [1#2; 1#2; 0] == 0.
Proof. vm_compute. repeat split; reflexivity. Qed.
Print Assumptions C12_variation_instance.
