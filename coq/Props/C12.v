(* Props/C12.v -- property C12: the earth mover's distances of the clustering pipeline in exact arithmetic.
   A. Equity::variation over Q: the CDF formula, metric laws, var = W1 * (n-1)/n where W1 is the optimal
      transport cost on the equity grid (cut lower bound + monotone coupling).
   B. the greedy heuristic over Q returns a feasible transport plan.
   C. log-domain Sinkhorn over the reals (Coq's R with exp/ln; the standard real-number axioms appear in
      Print Assumptions for part C only): the plan is positive and its column sums are the target densities.
   The definitions qabs / var of the provisional instance now live in Spec/SpecTransport.v (unchanged). *)
From Coq Require Import NArith ZArith QArith List Reals Lra.
From RP Require Import Model.Emd Spec.SpecTransport.
From RP Require Import Proofs.C12_Variation Proofs.C12_W1 Proofs.C12_Monotone Proofs.C12_Greedy Proofs.C12_Sinkhorn.
Import ListNotations.
Open Scope Q_scope.

(* two distributions on a three-point grid: sum of |cdf differences| / number of points; symmetric; zero on itself *)
Theorem C12_variation_instance :
  var [1#2; 1#2; 0] [0; 1#2; 1#2] == 1#3 /\ var [0; 1#2; 1#2] [1#2; 1#2; 0] == 1#3 /\ var [1#2; 1#2; 0] [1#2; 1#2; 0] == 0.
Proof. vm_compute. repeat split; reflexivity. Qed.
Print Assumptions C12_variation_instance.

(* ================================================================== *)
(* A. Equity::variation                                               *)
(* ================================================================== *)

(* var = (sum_{k=1..n} |F(k) - G(k)|) / n  with F, G the prefix sums (CDFs) *)
Theorem C12_variation_formula : forall xs ys, length xs = length ys ->
  var xs ys == qsum_range 1 (length xs) (fun k => qabs (prefix_sum xs k - prefix_sum ys k)) / qnat (length xs).
Proof. exact variation_formula. Qed.
Print Assumptions C12_variation_formula.

Theorem C12_variation_symmetric : forall xs ys, length xs = length ys -> var xs ys == var ys xs.
Proof. exact variation_symmetric. Qed.
Print Assumptions C12_variation_symmetric.

Theorem C12_variation_nonneg : forall xs ys, 0 <= var xs ys.
Proof. exact variation_nonneg. Qed.
Print Assumptions C12_variation_nonneg.

Theorem C12_variation_zero_iff : forall xs ys, length xs = length ys ->
  (var xs ys == 0 <-> Forall2 Qeq xs ys).
Proof. exact variation_zero_iff. Qed.
Print Assumptions C12_variation_zero_iff.

Theorem C12_variation_triangle : forall xs ys zs, length xs = length ys -> length ys = length zs ->
  var xs zs <= var xs ys + var ys zs.
Proof. exact variation_triangle. Qed.
Print Assumptions C12_variation_triangle.

(* equal total masses (in particular two densities): the k = n term vanishes and var = W1cdf * (n-1)/n *)
Theorem C12_variation_last_term_zero : forall xs ys, length xs = length ys -> qsum xs == qsum ys ->
  cdf_gap xs ys (length xs) == 0 /\
  var xs ys == qsum_range 1 (length xs - 1) (cdf_gap xs ys) / qnat (length xs) /\
  var xs ys == W1cdf xs ys * (qnat (length xs - 1) / qnat (length xs)).
Proof. exact variation_last_term_zero. Qed.
Print Assumptions C12_variation_last_term_zero.

(* the 101-point equity grid: var = W1 * 100/101 *)
Theorem C12_variation_W1_101 : forall xs ys, length xs = 101%nat -> length ys = 101%nat -> qsum xs == qsum ys ->
  var xs ys == W1cdf xs ys * (100 # 101).
Proof. exact variation_W1_101. Qed.
Print Assumptions C12_variation_W1_101.

(* the cut argument: every coupling costs at least the CDF formula *)
Theorem C12_W1_cut_lower_bound : forall n P xs ys, length xs = n -> is_coupling n P xs ys ->
  W1cdf xs ys <= coupling_cost n P.
Proof. exact W1_cut_lower_bound. Qed.
Print Assumptions C12_W1_cut_lower_bound.

(* the monotone coupling is a coupling and attains the CDF formula *)
Theorem C12_W1_monotone_coupling : forall xs ys, length xs = length ys ->
  Forall (fun x => 0 <= x) xs -> Forall (fun y => 0 <= y) ys -> qsum xs == qsum ys ->
  is_coupling (length xs) (monotone_coupling xs ys) xs ys /\
  coupling_cost (length xs) (monotone_coupling xs ys) == W1cdf xs ys.
Proof. exact W1_monotone_coupling. Qed.
Print Assumptions C12_W1_monotone_coupling.

(* hence: Equity::variation is the optimal transport cost (grid spacing 1/(n-1)) times (n-1)/n *)
Theorem C12_variation_is_W1 : forall xs ys, length xs = length ys -> is_density xs -> is_density ys ->
  let n := length xs in
  let scale := qnat (n - 1) / qnat n in
  (exists P, is_coupling n P xs ys /\ var xs ys == coupling_cost n P * scale) /\
  (forall P, is_coupling n P xs ys -> var xs ys <= coupling_cost n P * scale).
Proof. exact variation_is_W1. Qed.
Print Assumptions C12_variation_is_W1.

(* hypotheses are satisfiable: two densities on a 3-point grid, a non-optimal (product) coupling, and the values *)
Definition ex_xs : list Q := [1#2; 1#2; 0].
Definition ex_ys : list Q := [1#2; 0; 1#2].
Definition ex_P (i j : nat) : Q := nth i ex_xs 0 * nth j ex_ys 0.
Example C12_variation_hyps_sat :
  length ex_xs = length ex_ys /\ is_density ex_xs /\ is_density ex_ys /\ is_coupling 3 ex_P ex_xs ex_ys /\
  W1cdf ex_xs ex_ys == 1#4 /\ coupling_cost 3 ex_P == 1#2 /\
  coupling_cost 3 (monotone_coupling ex_xs ex_ys) == 1#4 /\ var ex_xs ex_ys == 1#6.
Proof.
  split; [reflexivity|]. split.
  { split; [repeat constructor; vm_compute; discriminate|vm_compute; reflexivity]. }
  split.
  { split; [repeat constructor; vm_compute; discriminate|vm_compute; reflexivity]. }
  split.
  { split; [|split].
    - intros i j Hi Hj.
      do 3 (destruct i as [|i]; [do 3 (destruct j as [|j]; [vm_compute; discriminate|]); exfalso; apply (Nat.nlt_0_r j); do 3 apply Nat.succ_lt_mono in Hj; exact Hj|]).
      exfalso. apply (Nat.nlt_0_r i). do 3 apply Nat.succ_lt_mono in Hi. exact Hi.
    - intros i Hi.
      do 3 (destruct i as [|i]; [vm_compute; reflexivity|]).
      exfalso. apply (Nat.nlt_0_r i). do 3 apply Nat.succ_lt_mono in Hi. exact Hi.
    - intros j Hj.
      do 3 (destruct j as [|j]; [vm_compute; reflexivity|]).
      exfalso. apply (Nat.nlt_0_r j). do 3 apply Nat.succ_lt_mono in Hj. exact Hj. }
  repeat split; vm_compute; reflexivity.
Qed.
Print Assumptions C12_variation_hyps_sat.

(* the 101-point grid: all mass at equity 0 versus all mass at equity 1: W1 = 1, var = 100/101 *)
Definition ex_lo : list Q := 1 :: repeat 0 100.
Definition ex_hi : list Q := repeat 0 100 ++ [1].
Example C12_variation_101_sat :
  length ex_lo = 101%nat /\ length ex_hi = 101%nat /\ is_density ex_lo /\ is_density ex_hi /\
  W1cdf ex_lo ex_hi == 1 /\ var ex_lo ex_hi == 100 # 101.
Proof.
  split; [reflexivity|]. split; [reflexivity|].
  split.
  { split; [apply Forall_forall; intros x Hx; destruct Hx as [<-|Hx]; [discriminate|apply repeat_spec in Hx; subst x; discriminate]
           |vm_compute; reflexivity]. }
  split.
  { split; [apply Forall_forall; intros x Hx; apply in_app_or in Hx; destruct Hx as [Hx|[<-|[]]];
            [apply repeat_spec in Hx; subst x; discriminate|discriminate]
           |vm_compute; reflexivity]. }
  split; vm_compute; reflexivity.
Qed.
Print Assumptions C12_variation_101_sat.

(* ================================================================== *)
(* B. the greedy heuristic                                            *)
(* ================================================================== *)

(* distinct keys, non-negative densities, equal total mass, fuel >= |piles| + |sinks|: the greedy moves
   form a feasible transport plan *)
Theorem C12_greedy_feasible : forall dist piles sinks fuel,
  NoDup (map fst piles) -> NoDup (map fst sinks) -> nonneg_hist piles -> nonneg_hist sinks ->
  total piles == total sinks -> (length piles + length sinks <= fuel)%nat ->
  feasible_plan dist piles sinks (greedyQ dist fuel piles sinks []).
Proof. exact greedy_feasible. Qed.
Print Assumptions C12_greedy_feasible.

(* in detail: strictly positive masses, the recorded distances are the metric's, exact marginals,
   total shipped = total mass *)
Theorem C12_greedy_feasible_strong : forall dist piles sinks fuel,
  NoDup (map fst piles) -> NoDup (map fst sinks) -> nonneg_hist piles -> nonneg_hist sinks ->
  total piles == total sinks -> (length piles + length sinks <= fuel)%nat ->
  let mv := greedyQ dist fuel piles sinks [] in
  Forall (fun m => 0 < mv_mass m /\ mv_dist m = dist (mv_src m) (mv_dst m)) mv /\
  (forall x, shipped_out x mv == lookup x piles) /\
  (forall y, shipped_in y mv == lookup y sinks) /\
  shipped_total mv == total piles.
Proof. exact greedy_feasible_strong. Qed.
Print Assumptions C12_greedy_feasible_strong.

(* so the greedy cost is at least any lower bound of the costs of all feasible plans (e.g. the optimum) *)
Theorem C12_greedy_cost_ge_any_lower_bound : forall dist piles sinks fuel L,
  NoDup (map fst piles) -> NoDup (map fst sinks) -> nonneg_hist piles -> nonneg_hist sinks ->
  total piles == total sinks -> (length piles + length sinks <= fuel)%nat ->
  (forall mv, feasible_plan dist piles sinks mv -> L <= greedy_costQ mv) ->
  L <= greedy_costQ (greedyQ dist fuel piles sinks []).
Proof. exact greedy_cost_ge_any_lower_bound. Qed.
Print Assumptions C12_greedy_cost_ge_any_lower_bound.

Definition ex_dist (a b : N) : Q := inject_Z (Z.abs (Z.of_N a - Z.of_N b)).
Definition ex_piles : list (N * Q) := [(0%N, 1#2); (3%N, 1#2)].
Definition ex_sinks : list (N * Q) := [(1%N, 1#4); (2%N, 3#4)].
Example C12_greedy_hyps_sat :
  NoDup (map fst ex_piles) /\ NoDup (map fst ex_sinks) /\ nonneg_hist ex_piles /\ nonneg_hist ex_sinks /\
  total ex_piles == total ex_sinks /\ (length ex_piles + length ex_sinks <= 4)%nat /\
  greedyQ ex_dist 4 ex_piles ex_sinks [] =
    [(0%N, 1%N, 1#4, 1); (3%N, 2%N, 1#2, 1); (0%N, 2%N, (1#2) - (1#4), 2)] /\
  greedy_costQ (greedyQ ex_dist 4 ex_piles ex_sinks []) == 5#4.
Proof.
  split; [repeat constructor; cbn; intuition discriminate|].
  split; [repeat constructor; cbn; intuition discriminate|].
  split; [repeat constructor; vm_compute; discriminate|].
  split; [repeat constructor; vm_compute; discriminate|].
  split; [vm_compute; reflexivity|].
  split; [cbn; repeat constructor|].
  split; vm_compute; reflexivity.
Qed.
Print Assumptions C12_greedy_hyps_sat.

Close Scope Q_scope.

(* ================================================================== *)
(* C. Sinkhorn over the reals                                         *)
(* ================================================================== *)
Open Scope R_scope.

(* every entry of the plan is positive (for any potentials) *)
Theorem C12_plan_nonneg : forall temperature dist lr,
  Forall (Forall (fun e => 0 < e)) (planR temperature dist lr).
Proof. exact plan_pos. Qed.
Print Assumptions C12_plan_nonneg.

(* the plan of the potentials after t >= 1 rounds is a |mu| x |nu| matrix *)
Theorem C12_plan_dims : forall temperature tolerance minpos dist t mu nu lhs0 rhs0, (1 <= t)%nat ->
  length (planR temperature dist (sinkhornR temperature tolerance minpos dist t mu nu lhs0 rhs0)) = length mu /\
  Forall (fun row => length row = length nu)
         (planR temperature dist (sinkhornR temperature tolerance minpos dist t mu nu lhs0 rhs0)).
Proof. exact plan_dims. Qed.
Print Assumptions C12_plan_dims.

(* after t >= 1 rounds (from any initial potentials), with a symmetric metric, a non-empty source, positive
   target densities and the MIN_POSITIVE clamp inactive in the last rhs update: column j of the plan sums to nu(j) *)
Theorem C12_plan_columns : forall temperature tolerance minpos dist,
  (forall a b, dist a b = dist b a) ->
  forall t mu nu lhs0 rhs0, (1 <= t)%nat -> mu <> [] -> positive_hist nu ->
  clamp_inactive temperature minpos dist nu (fst (sinkhornR temperature tolerance minpos dist t mu nu lhs0 rhs0)) ->
  forall j, (j < length nu)%nat ->
  rsum (column j (planR temperature dist (sinkhornR temperature tolerance minpos dist t mu nu lhs0 rhs0))) =
  snd (nth j nu (0%N, 0)).
Proof. exact plan_columns. Qed.
Print Assumptions C12_plan_columns.

(* hence the total mass of the plan is the total mass of nu (= 1 for a distribution) *)
Theorem C12_plan_total_mass : forall temperature tolerance minpos dist,
  (forall a b, dist a b = dist b a) ->
  forall t mu nu lhs0 rhs0, (1 <= t)%nat -> mu <> [] -> positive_hist nu ->
  clamp_inactive temperature minpos dist nu (fst (sinkhornR temperature tolerance minpos dist t mu nu lhs0 rhs0)) ->
  rsum (map rsum (planR temperature dist (sinkhornR temperature tolerance minpos dist t mu nu lhs0 rhs0))) =
  rsum (map snd nu).
Proof. exact plan_total_mass. Qed.
Print Assumptions C12_plan_total_mass.

(* the exact instance with the clamp constant 0: the clamp hypothesis is vacuous (also its satisfiability witness) *)
Theorem C12_plan_columns_noclamp : forall temperature tolerance dist t mu nu lhs0 rhs0,
  (forall a b, dist a b = dist b a) -> (1 <= t)%nat -> mu <> [] -> positive_hist nu ->
  forall j, (j < length nu)%nat ->
  rsum (column j (planR temperature dist (sinkhornR temperature tolerance 0 dist t mu nu lhs0 rhs0))) =
  snd (nth j nu (0%N, 0)).
Proof. exact plan_columns_noclamp. Qed.
Print Assumptions C12_plan_columns_noclamp.

Theorem C12_plan_total_mass_noclamp : forall temperature tolerance dist t mu nu lhs0 rhs0,
  (forall a b, dist a b = dist b a) -> (1 <= t)%nat -> mu <> [] -> positive_hist nu ->
  rsum (map rsum (planR temperature dist (sinkhornR temperature tolerance 0 dist t mu nu lhs0 rhs0))) =
  rsum (map snd nu).
Proof. exact plan_total_mass_noclamp. Qed.
Print Assumptions C12_plan_total_mass_noclamp.

(* the production entry point: SINKHORN_ITERATIONS rounds from the uniform potentials *)
Theorem C12_minimize_columns : forall temperature tolerance minpos dist mu nu,
  (forall a b, dist a b = dist b a) -> mu <> [] -> positive_hist nu ->
  clamp_inactive temperature minpos dist nu (fst (minimizeR temperature tolerance minpos dist mu nu)) ->
  forall j, (j < length nu)%nat ->
  rsum (column j (planR temperature dist (minimizeR temperature tolerance minpos dist mu nu))) =
  snd (nth j nu (0%N, 0)).
Proof. exact minimize_columns. Qed.
Print Assumptions C12_minimize_columns.

(* Gibbs' inequality (stretch): sum q ln(q/p) >= 0 over pairs (q, p) of positive numbers with equal totals *)
Theorem C12_gibbs : forall (qp : list (R * R)),
  Forall (fun e => 0 < fst e /\ 0 < snd e) qp -> rsum (map fst qp) = rsum (map snd qp) ->
  0 <= rsum (map (fun e => fst e * ln (fst e / snd e)) qp).
Proof. exact gibbs. Qed.
Print Assumptions C12_gibbs.

Definition ex_distR (a b : N) : R := if N.eqb a b then 0 else 1.
Definition ex_mu : hist R := [(0%N, /2); (1%N, /2)].
Definition ex_nu : hist R := [(0%N, /4); (1%N, 3/4)].
Example C12_sinkhorn_hyps_sat :
  (forall a b, ex_distR a b = ex_distR b a) /\ ex_mu <> [] /\ positive_hist ex_nu /\
  rsum (map snd ex_nu) = 1 /\
  (forall j, (j < 2)%nat ->
     rsum (column j (planR (/40) ex_distR (sinkhornR (/40) (/1000) 0 ex_distR 3 ex_mu ex_nu (uniform R Rdiv ln INR ex_mu) (uniform R Rdiv ln INR ex_nu)))) =
     snd (nth j ex_nu (0%N, 0))).
Proof.
  assert (Hsym : forall a b, ex_distR a b = ex_distR b a).
  { intros a b. unfold ex_distR. now rewrite N.eqb_sym. }
  assert (Hnu : positive_hist ex_nu).
  { repeat constructor; cbn [snd]; lra. }
  split; [exact Hsym|]. split; [discriminate|]. split; [exact Hnu|].
  split.
  { unfold rsum, fsum, ex_nu. cbn [map snd fold_left]. lra. }
  intros j Hj. apply C12_plan_columns_noclamp; try assumption.
  - repeat constructor.
  - discriminate.
Qed.
Print Assumptions C12_sinkhorn_hyps_sat.

(* the clamp hypothesis is satisfiable: with clamp constant 0 it holds for all potentials *)
Example C12_clamp_inactive_sat : forall temperature dist nu pot, clamp_inactive temperature 0 dist nu pot.
Proof. intros temperature dist nu pot. apply clamp_inactive_nonpos. lra. Qed.
Print Assumptions C12_clamp_inactive_sat.

Example C12_gibbs_hyps_sat :
  Forall (fun e : R * R => 0 < fst e /\ 0 < snd e) [(/2, /4); (/2, 3/4)] /\
  rsum (map fst [(/2, /4); (/2, 3/4)]) = rsum (map snd [(/2, /4); (/2, 3/4)]).
Proof.
  split.
  - repeat constructor; cbn [fst snd]; lra.
  - unfold rsum, fsum. cbn [map fst snd fold_left]. lra.
Qed.
Print Assumptions C12_gibbs_hyps_sat.

(* ================================================================== *)
(* D. transport duality over Q: certified lower bounds on the cost of a plan                        *)
(*    (vocabulary: Spec/SpecDuality.v; n source buckets 0..n-1, m target buckets 0..m-1, ground     *)
(*    cost d; the Sinkhorn plan of part C is non-negative with column sums nu, its row sums mu'     *)
(*    are only approximately the source histogram mu)                                               *)
(* ================================================================== *)
From Coq Require Import Qabs.
From RP Require Import Spec.SpecDuality Proofs.C12_Duality.
Close Scope R_scope.
Open Scope Q_scope.

(* weak duality: a dual-feasible pair of potentials is worth at most the cost of any non-negative plan,
   measured against that plan's own marginals *)
Theorem C12_weak_duality : forall n m d P f g mu' nu,
  nonneg_plan n m P -> has_row_sums n m P mu' -> has_col_sums n m P nu ->
  dual_feasible n m d f g ->
  dual_value n m f g mu' nu <= plan_cost n m d P.
Proof. exact weak_duality. Qed.
Print Assumptions C12_weak_duality.

(* hence every coupling of (mu, nu) costs at least the dual value: a dual-feasible pair is a certified
   lower bound on the exact optimal-transport cost *)
Theorem C12_optimum_at_least_dual : forall n m d Q f g mu nu,
  coupling_of n m Q mu nu -> dual_feasible n m d f g ->
  dual_value n m f g mu nu <= plan_cost n m d Q.
Proof. exact optimum_at_least_dual. Qed.
Print Assumptions C12_optimum_at_least_dual.

(* a non-negative plan with column sums nu but row sums mu' (not necessarily mu) costs at least any
   certified lower bound on the optimum for (mu, nu), minus F times the mass it misplaces on the source
   side, where F bounds the source potential.  For a ground cost normalised to [0,1] one can take
   F <= 1 without lowering the certificate (C12_potentials_bounded below), so a plan's cost is at
   least (exact optimum) - sum_i |mu i - mu' i| whenever the certificate is optimal.  This is the LP lemma only: that
   an optimal certificate exists (strong duality) is not proved here, and the Sinkhorn plan of part C (over R) is not
   re-expressed in this vocabulary. *)
Theorem C12_plan_cost_lower_bound : forall n m d P f g mu mu' nu F,
  nonneg_plan n m P -> has_row_sums n m P mu' -> has_col_sums n m P nu ->
  dual_feasible n m d f g -> (forall i, (i < n)%nat -> qabs (f i) <= F) ->
  dual_value n m f g mu nu - F * misplaced n mu mu' <= plan_cost n m d P.
Proof. exact plan_cost_lower_bound. Qed.
Print Assumptions C12_plan_cost_lower_bound.

(* remark: for a ground cost with values in [0,1] (no symmetry, triangle inequality or zero diagonal is
   needed) and histograms of equal total mass with non-negative source masses, every dual-feasible
   pair is dominated by one whose source potential lies in [0,1] (c-transform, then shift by a constant) *)
Theorem C12_potentials_bounded : forall n m d f g mu nu,
  (0 < n)%nat -> (0 < m)%nat ->
  (forall i j, (i < n)%nat -> (j < m)%nat -> 0 <= d i j <= 1) ->
  dual_feasible n m d f g ->
  (forall i, (i < n)%nat -> 0 <= mu i) -> qsum_range 0 n mu == qsum_range 0 m nu ->
  exists f' g', dual_feasible n m d f' g' /\ (forall i, (i < n)%nat -> 0 <= f' i <= 1) /\
                dual_value n m f g mu nu <= dual_value n m f' g' mu nu.
Proof. exact potentials_bounded. Qed.
Print Assumptions C12_potentials_bounded.

(* a 3 x 3 instance on the grid 0, 1/2, 1: the hypotheses are satisfiable and both bounds are attained *)
Definition exD_d   := mat [[0; 1#2; 1]; [1#2; 0; 1#2]; [1; 1#2; 0]].
Definition exD_mu  := vec [1#2; 1#2; 0].
Definition exD_nu  := vec [0; 1#2; 1#2].
Definition exD_Q   := mat [[0; 1#2; 0]; [0; 0; 1#2]; [0; 0; 0]].          (* an optimal coupling of (mu, nu) *)
Definition exD_f   := vec [1#2; 0; -(1#2)].
Definition exD_g   := vec [-(1#2); 0; 1#2].
Definition exD_mu' := vec [1#4; 1#2; 1#4].
Definition exD_P   := mat [[0; 1#4; 0]; [0; 1#4; 1#4]; [0; 0; 1#4]].      (* column sums nu, row sums mu' *)
Example C12_duality_hyps_sat :
  (* (b) is tight: the coupling Q and the dual pair (f, g) have the same value, so both are optimal *)
  coupling_of 3 3 exD_Q exD_mu exD_nu /\ dual_feasible 3 3 exD_d exD_f exD_g /\
  dual_value 3 3 exD_f exD_g exD_mu exD_nu == 1#2 /\ plan_cost 3 3 exD_d exD_Q == 1#2 /\
  (* (c) is tight: optimum 1/2, F = 1/2, misplaced mass 1/2, cost of P = 1/2 - 1/2 * 1/2 *)
  nonneg_plan 3 3 exD_P /\ has_row_sums 3 3 exD_P exD_mu' /\ has_col_sums 3 3 exD_P exD_nu /\
  (forall i, (i < 3)%nat -> qabs (exD_f i) <= 1#2) /\
  misplaced 3 exD_mu exD_mu' == 1#2 /\ plan_cost 3 3 exD_d exD_P == 1#4 /\
  (* (potentials_bounded) ground cost in [0,1], non-negative source masses, equal total masses *)
  (forall i j, (i < 3)%nat -> (j < 3)%nat -> 0 <= exD_d i j <= 1) /\
  (forall i, (i < 3)%nat -> 0 <= exD_mu i) /\ qsum_range 0 3 exD_mu == qsum_range 0 3 exD_nu.
Proof.
  unfold coupling_of, nonneg_plan, has_row_sums, has_col_sums, dual_feasible.
  repeat match goal with
  | |- _ /\ _ => split
  | |- forall i j, (i < 3)%nat -> (j < 3)%nat -> _ => apply (below3_2 (fun i j => _))
  | |- forall i, (i < 3)%nat -> _ => apply (below3 (fun i => _))
  end; vm_compute; first [reflexivity | intros Hc; discriminate Hc].
Qed.
Print Assumptions C12_duality_hyps_sat.

(* ================================================================== *)
(* E. the clamp hypothesis of part C at the production constants                                    *)
(*    (over the reals: the standard real-number axioms appear in Print Assumptions)                 *)
(* ================================================================== *)
From Coq Require Import Qreals.
From RP Require Import Gen.GenLib Proofs.C12_ClampBound.
From RP Require Spec.C09Spec.
Close Scope Q_scope.
Open Scope R_scope.

(* with the clamp constant f32::MIN_POSITIVE = 2^-126 and any temperature T > 0: if the potentials are at
   least -B, the ground distances (between the keys that occur) lie in [0,1] and B + 1/T <= 126 ln 2,
   the clamp never fires *)
Theorem C12_clamp_inactive_sufficient : forall (T B : R) (dist : N -> N -> R) (h : hist R) (pot : potential R),
  0 < T ->
  (forall xp, In xp pot -> - B <= snd xp) ->
  (forall xp yq, In xp pot -> In yq h -> 0 <= dist (fst yq) (fst xp) <= 1) ->
  B + 1 / T <= 126 * ln 2 ->
  clamp_inactive T (/ 2 ^ 126) dist h pot.
Proof. exact clamp_inactive_sufficient. Qed.
Print Assumptions C12_clamp_inactive_sufficient.

(* the hypotheses hold at the generated constants (SINKHORN_TEMPERATURE = 1/40, f32::MIN_POSITIVE = 2^-126;
   real values through C09Spec.fconst_Q) with B = 20 (20 + 40 = 60 <= 126 ln 2 = 87.3...), for two buckets at
   distance 1 with potentials 0 and -1; hence the clamp is inactive there *)
Example C12_clamp_inactive_production_example :
  let T := Q2R (C09Spec.fconst_Q SINKHORN_TEMPERATURE) in
  let minpos := Q2R (C09Spec.fconst_Q F32_MIN_POSITIVE) in
  let dist := fun a b : N => if N.eqb a b then 0 else 1 in
  let h : hist R := [(0%N, / 2); (1%N, / 2)] in
  let pot : potential R := [(0%N, 0); (1%N, - 1)] in
  T = / 40 /\ minpos = / 2 ^ 126 /\ 0 < T /\
  (forall xp, In xp pot -> - 20 <= snd xp) /\
  (forall xp yq, In xp pot -> In yq h -> 0 <= dist (fst yq) (fst xp) <= 1) /\
  20 + 1 / T <= 126 * ln 2 /\
  clamp_inactive T minpos dist h pot.
Proof. exact clamp_inactive_production_example. Qed.
Print Assumptions C12_clamp_inactive_production_example.
