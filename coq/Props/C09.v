(* Props/C09.v -- property C09: regret matching with a floor (Profile::policy_vector).
   Model: Model/RegretMatching.v (policy_vector_Q, regret_matching); vocabulary: Spec/C09Spec.v
     divisor t       = inject_Z (Z.max t 1)               the repaired divisor epochs.max(1)
     cum_regret t r  = r / divisor t                      cumulated regret
     floored eps t r = qmax (cum_regret t r) eps          floored at eps = POLICY_MIN
     floored_vec, pos_vec  = map of floored / of qpos (cum_regret t .)
     qsum l = fold_left Qplus l 0,  qlen rs = inject_Z (Z.of_nat (length rs)).
   All theorems hold for every epoch counter t : Z (so in particular for all t >= 0, t = 0
   included: the divisor is Z.max t 1 >= 1) and every floor eps > 0; hypotheses that the proofs do
   not need (0 <= t, and rs <> [] where it is not needed) are omitted, which only strengthens the
   statements.  Examples for the hypotheses: Proofs/C09_Examples.v. *)
From Coq Require Import ZArith QArith Qabs List Bool.
From RP Require Import Gen.GenLib Gen.GenFixes Model.RegretMatching Spec.C09Spec.
From RP Require Proofs.C09_Sums Proofs.C09_Policy Proofs.C09_Examples.
Import ListNotations.
Local Open Scope Q_scope.

(* the code's floor POLICY_MIN (generated) is positive, so the theorems below apply to it *)
Theorem C09_policy_min_positive : 0 < fconst_Q POLICY_MIN.
Proof. exact C09_Policy.policy_min_positive. Qed.
Print Assumptions C09_policy_min_positive.

(* the assertions of policy_vector never fire (t = 0 included); uses the generated flag = true *)
Theorem C09_no_abort : forall eps t rs, 0 < eps ->
  exists p, policy_vector_Q eps t rs = Some p /\ length p = length rs.
Proof. exact C09_Policy.no_abort. Qed.
Print Assumptions C09_no_abort.

(* the result is a probability distribution with full support *)
Theorem C09_distribution : forall eps t rs p, 0 < eps -> rs <> [] ->
  policy_vector_Q eps t rs = Some p ->
  Forall (fun x => 0 < x /\ x <= 1) p /\ fold_left Qplus p 0 == 1.
Proof. exact C09_Policy.distribution. Qed.
Print Assumptions C09_distribution.

(* entry a is max(R_a / max(t,1), eps) / sum_b max(R_b / max(t,1), eps) *)
Theorem C09_formula : forall eps t rs p a, 0 < eps ->
  policy_vector_Q eps t rs = Some p -> (a < length rs)%nat ->
  nth a p 0 == floored eps t (nth a rs 0) / qsum (floored_vec eps t rs).
Proof. exact C09_Policy.formula. Qed.
Print Assumptions C09_formula.

(* the same, as a Leibniz equality of vectors *)
Theorem C09_formula_vec : forall eps t rs p, 0 < eps ->
  policy_vector_Q eps t rs = Some p ->
  p = map (fun r => floored eps t r / qsum (floored_vec eps t rs)) rs.
Proof. exact C09_Policy.formula_vec. Qed.
Print Assumptions C09_formula_vec.

(* no cumulated regret exceeds the floor: the uniform strategy *)
Theorem C09_uniform : forall eps t rs p a, 0 < eps ->
  (forall r, In r rs -> cum_regret t r <= eps) ->
  policy_vector_Q eps t rs = Some p -> (a < length rs)%nat ->
  nth a p 0 == 1 # Pos.of_nat (length rs).
Proof. exact C09_Policy.uniform. Qed.
Print Assumptions C09_uniform.

(* in particular when no regret is positive; this is regret_matching's uniform case *)
Theorem C09_uniform_no_positive : forall eps t rs p a, 0 < eps ->
  (forall r, In r rs -> r <= 0) ->
  policy_vector_Q eps t rs = Some p -> (a < length rs)%nat ->
  nth a p 0 == 1 # Pos.of_nat (length rs) /\ nth a p 0 == nth a (regret_matching rs) 0.
Proof. exact C09_Policy.uniform_no_positive. Qed.
Print Assumptions C09_uniform_no_positive.

(* x_a <= c_a <= x_a + eps and X <= C <= X + n * eps
   (c = floored values, x = positive parts of the cumulated regrets, C, X their sums) *)
Theorem C09_floor_bounds : forall eps t rs, 0 <= eps ->
  (forall r, qpos (cum_regret t r) <= floored eps t r /\
             floored eps t r <= qpos (cum_regret t r) + eps) /\
  qsum (pos_vec t rs) <= qsum (floored_vec eps t rs) /\
  qsum (floored_vec eps t rs) <= qsum (pos_vec t rs) + qlen rs * eps.
Proof. exact C09_Policy.floor_bounds. Qed.
Print Assumptions C09_floor_bounds.

(* | p_a - x_a / X | <= n * eps / X  when X = sum of positive parts > 0 *)
Theorem C09_proportional : forall eps t rs p a, 0 < eps ->
  0 < qsum (pos_vec t rs) ->
  policy_vector_Q eps t rs = Some p -> (a < length rs)%nat ->
  Qabs (nth a p 0 - qpos (cum_regret t (nth a rs 0)) / qsum (pos_vec t rs))
    <= qlen rs * eps / qsum (pos_vec t rs).
Proof. exact C09_Policy.proportional. Qed.
Print Assumptions C09_proportional.

(* x_a / X is the textbook regret-matching entry (the epoch normalisation cancels) *)
Theorem C09_regret_matching_nth : forall t rs a,
  (exists r, In r rs /\ 0 < r) -> (a < length rs)%nat ->
  nth a (regret_matching rs) 0 == qpos (cum_regret t (nth a rs 0)) / qsum (pos_vec t rs).
Proof. exact C09_Policy.regret_matching_nth. Qed.
Print Assumptions C09_regret_matching_nth.

(* hence the strategy is regret matching up to n * eps / X *)
Theorem C09_close_to_regret_matching : forall eps t rs p a, 0 < eps ->
  (exists r, In r rs /\ 0 < r) ->
  policy_vector_Q eps t rs = Some p -> (a < length rs)%nat ->
  Qabs (nth a p 0 - nth a (regret_matching rs) 0) <= qlen rs * eps / qsum (pos_vec t rs).
Proof. exact C09_Policy.close_to_regret_matching. Qed.
Print Assumptions C09_close_to_regret_matching.

(* limit form eps = 0: exactly regret_matching when some regret is positive *)
Theorem C09_limit_regret_matching : forall t rs, (exists r, In r rs /\ 0 < r) ->
  exists p, policy_vector_Q 0 t rs = Some p /\ length p = length rs /\
    forall a, (a < length rs)%nat -> nth a p 0 == nth a (regret_matching rs) 0.
Proof. exact C09_Policy.limit_regret_matching. Qed.
Print Assumptions C09_limit_regret_matching.

(* the epoch normalisation cancels in the unfloored ratios (any positive divisors) *)
Theorem C09_scale_invariant : forall d1 d2 r rs, 0 < d1 -> 0 < d2 ->
  (r / d1) / qsum (map (fun b => b / d1) rs) == (r / d2) / qsum (map (fun b => b / d2) rs).
Proof. exact C09_Policy.scale_invariant. Qed.
Print Assumptions C09_scale_invariant.

Theorem C09_scale_invariant_pos : forall d1 d2 r rs, 0 < d1 -> 0 < d2 ->
  qpos (r / d1) / qsum (map (fun b => qpos (b / d1)) rs) ==
  qpos (r / d2) / qsum (map (fun b => qpos (b / d2)) rs).
Proof. exact C09_Policy.scale_invariant_pos. Qed.
Print Assumptions C09_scale_invariant_pos.

Theorem C09_scale_invariant_epochs : forall t1 t2 r rs,
  cum_regret t1 r / qsum (map (cum_regret t1) rs) ==
  cum_regret t2 r / qsum (map (cum_regret t2) rs).
Proof. exact C09_Policy.scale_invariant_epochs. Qed.
Print Assumptions C09_scale_invariant_epochs.

(* policy_vector_with is the model with the flag as a parameter *)
Theorem C09_policy_vector_with_generated :
  policy_vector_with_Q REGRET_DIVISOR_AT_LEAST_ONE = policy_vector_Q.
Proof. exact C09_Policy.policy_vector_with_Q_generated. Qed.
Print Assumptions C09_policy_vector_with_generated.

(* the original divisor aborts on a fresh profile as soon as one regret is positive *)
Theorem C09_unfixed_aborts : forall eps rs, (exists r, In r rs /\ 0 < r) ->
  policy_vector_with_Q false eps 0 rs = None.
Proof. exact C09_Policy.unfixed_aborts. Qed.
Print Assumptions C09_unfixed_aborts.

(* concrete witness: [5; -1] at t = 0 aborts without the fix; the model returns a distribution *)
Theorem C09_needs_divisor_fix :
  (forall eps, policy_vector_with_Q false eps 0 [5; -1] = None) /\
  policy_vector_Q (1 # 1000) 0 [5; -1] = Some [5000 # 5001; 1000 # 5001000] /\
  (exists p, policy_vector_Q (1 # 1000) 0 [5; -1] = Some p /\
     Forall (fun x => 0 < x /\ x <= 1) p /\ fold_left Qplus p 0 == 1).
Proof.
  exact (conj C09_Examples.ex_unfixed_aborts
           (conj C09_Examples.ex_fixed_value C09_Examples.ex_fixed_is_distribution)).
Qed.
Print Assumptions C09_needs_divisor_fix.

(* the repair changes nothing for t >= 1, nor at t = 0 when no regret is positive *)
Theorem C09_fix_conservative : forall eps t rs, (1 <= t)%Z ->
  policy_vector_with_Q false eps t rs = policy_vector_Q eps t rs.
Proof. exact C09_Policy.fix_conservative. Qed.
Print Assumptions C09_fix_conservative.

Theorem C09_fix_conservative_t0 : forall eps rs a, 0 < eps -> (forall r, In r rs -> r <= 0) ->
  (a < length rs)%nat ->
  exists p q, policy_vector_with_Q false eps 0 rs = Some p /\ policy_vector_Q eps 0 rs = Some q /\
    nth a p 0 == nth a q 0.
Proof. exact C09_Policy.fix_conservative_t0. Qed.
Print Assumptions C09_fix_conservative_t0.

(* the floor applied to the recorded regrets (regret_vector: r.max(REGRET_MIN)) *)
Theorem C09_clamp : forall lo r, lo <= clamp lo r /\ (lo <= r -> clamp lo r == r).
Proof. exact (fun lo r => conj (C09_Policy.clamp_ge lo r) (C09_Policy.clamp_id lo r)). Qed.
Print Assumptions C09_clamp.

(* ---------------------------------------------------------------------------------------------
   The same function in binary32 (Model/PolicyF32.v: Flocq binary_float 24 128, round to nearest
   even, with NaN, infinities, signed zeros, subnormals and overflow of the sum):
     policy_f32 t stored     the vector r / sum of the floored cumulated regrets
     policy_aborts t stored  true iff one of assert!(p >= 0.), assert!(p <= 1.) fires
     the `_gen flag` variants take the flag REGRET_DIVISOR_AT_LEAST_ONE as a parameter.
   t is the epoch counter (a usize: 0 <= t < 2^64), stored the stored regrets in edge order.
   These theorems use the real numbers (B2R) and therefore the standard library's axioms for R. *)
From Coq Require Import Reals.
From Flocq Require Import Core.Core IEEE754.BinarySingleNaN.
From RP Require Import Model.BetF32 Model.PolicyF32.
From RP Require Proofs.C09_F32.

(* the model's floor is the generated POLICY_MIN = f32::MIN_POSITIVE = 2^-126 *)
Theorem C09_f32_policy_min :
  POLICY_MIN = F32_MIN_POSITIVE /\ B2R policy_min = bpow radix2 (-126) /\ f32_one = of_usize 1.
Proof.
  exact (conj C09_F32.policy_min_generated (conj C09_F32.B2R_policy_min C09_F32.f32_one_of_usize)).
Qed.
Print Assumptions C09_f32_policy_min.

(* the code as generated is the variant with the flag's current value *)
Theorem C09_f32_generated :
  policy_f32 = policy_f32_gen REGRET_DIVISOR_AT_LEAST_ONE /\
  policy_aborts = policy_aborts_gen REGRET_DIVISOR_AT_LEAST_ONE /\
  REGRET_DIVISOR_AT_LEAST_ONE = true.
Proof. exact (conj eq_refl (conj eq_refl C09_F32.flag_generated)). Qed.
Print Assumptions C09_f32_generated.

(* no stored regret is +infinity (NaN, -infinity, negative, zero, subnormal, huge all allowed, the
   empty list too): the assertions never fire.  Example: C09_F32.ex_mixed, ex_no_abort_hyp *)
Theorem C09_f32_no_abort : forall t stored, (0 <= t < 2 ^ 64)%Z ->
  (forall r, In r stored -> r <> pos_inf) -> policy_aborts t stored = false.
Proof. exact C09_F32.no_abort. Qed.
Print Assumptions C09_f32_no_abort.

(* ... every entry is a finite binary32 number in [0, 1] ... *)
Theorem C09_f32_entries_unit : forall t stored, (0 <= t < 2 ^ 64)%Z ->
  (forall r, In r stored -> r <> pos_inf) ->
  Forall (fun p => is_finite p = true /\ (0 <= B2R p <= 1)%R) (policy_f32 t stored).
Proof. exact C09_F32.entries_unit. Qed.
Print Assumptions C09_f32_entries_unit.

(* ... in IEEE terms: not NaN, p >= 0. and p <= 1. both true *)
Theorem C09_f32_entries_ok : forall t stored, (0 <= t < 2 ^ 64)%Z ->
  (forall r, In r stored -> r <> pos_inf) ->
  Forall (fun p => is_nan p = false /\ fge32 p f32_zero = true /\ fle32 p f32_one = true)
    (policy_f32 t stored).
Proof. exact C09_F32.entries_ok. Qed.
Print Assumptions C09_f32_entries_ok.

(* a stored regret +infinity aborts (inf / d = inf, sum = inf, inf / inf = NaN).
   Example: C09_F32.ex_infinite *)
Theorem C09_f32_aborts_on_infinite_regret : forall t stored, (0 <= t < 2 ^ 64)%Z ->
  In pos_inf stored -> policy_aborts t stored = true.
Proof. exact C09_F32.aborts_on_infinite_regret. Qed.
Print Assumptions C09_f32_aborts_on_infinite_regret.

Theorem C09_f32_infinite_regret_gives_nan : forall t stored, (0 <= t < 2 ^ 64)%Z ->
  In pos_inf stored -> In B754_nan (policy_f32 t stored).
Proof. exact C09_F32.infinite_regret_gives_nan. Qed.
Print Assumptions C09_f32_infinite_regret_gives_nan.

(* the exact characterisation: the repaired code aborts iff a stored regret is +infinity *)
Theorem C09_f32_aborts_iff : forall t stored, (0 <= t < 2 ^ 64)%Z ->
  (policy_aborts t stored = true <-> In pos_inf stored).
Proof. exact C09_F32.aborts_iff. Qed.
Print Assumptions C09_f32_aborts_iff.

(* the original divisor (flag false) on a fresh profile, t = 0: division by +0.0; it aborts iff a
   stored regret is +infinity or a positive finite number *)
Theorem C09_f32_unfixed_aborts_iff : forall stored,
  policy_aborts_gen false 0 stored = true <->
  exists r, In r stored /\ (r = pos_inf \/ (is_finite r = true /\ (0 < B2R r)%R)).
Proof. exact C09_F32.unfixed_t0_aborts_iff. Qed.
Print Assumptions C09_f32_unfixed_aborts_iff.

(* concrete witness that the flag matters: t = 0 and the single stored regret 3.0 (or [5; -1]):
   abort (the entry is NaN) without the fix, [1.0] and no abort with it *)
Theorem C09_f32_needs_divisor_fix :
  policy_aborts_gen false 0 [of_usize 3] = true /\
  map (@B2SF prec emax) (policy_f32_gen false 0 [of_usize 3]) = [SpecFloat.S754_nan] /\
  policy_aborts_gen false 0 [of_usize 5; of_usize (-1)] = true /\
  policy_aborts_gen true 0 [of_usize 3] = false /\
  map (@B2SF prec emax) (policy_f32_gen true 0 [of_usize 3]) =
    [SpecFloat.S754_finite false 8388608 (-23)] /\
  policy_aborts_gen true 0 [of_usize 5; of_usize (-1)] = false /\
  policy_aborts 0 [of_usize 5; of_usize (-1)] = false.
Proof. exact C09_F32.ex_needs_divisor_fix. Qed.
Print Assumptions C09_f32_needs_divisor_fix.

(* the repair changes nothing once an epoch has been counted *)
Theorem C09_f32_fix_conservative : forall t stored, (1 <= t)%Z ->
  policy_f32_gen false t stored = policy_f32_gen true t stored.
Proof. exact C09_F32.fix_conservative. Qed.
Print Assumptions C09_f32_fix_conservative.

(* PARTIAL (needs the hypothesis that the binary32 sum of the floored regrets does not overflow;
   full statement wished for: the entries sum to 1 up to rounding for every input without +inf.
   That is false: when the sum overflows every entry is +0.0, see C09_f32_sum_overflow_all_zero
   and C09_F32.ex_overflow).  With u = 2^-24, n = number of actions, the real-number sum S of the
   entries satisfies (1-u)/(1+u)^(n-1) - n*2^-150 <= S <= (1+u)/(1-u)^(n-1) + n*2^-150;
   the term n*2^-150 accounts for quotients that underflow (no hypothesis on them is needed).
   No hypothesis on t or on infinities: a +infinity makes the sum infinite.
   Example: C09_F32.ex_sum_finite *)
Theorem C09_f32_sum_close_partial : forall t stored, stored <> [] ->
  is_finite (fsum32 (map floored32 (map (cumulated_gen REGRET_DIVISOR_AT_LEAST_ONE t) stored))) = true ->
  let n := length stored in
  let u := bpow radix2 (-24) in
  let S := fold_right Rplus 0%R (map (@B2R prec emax) (policy_f32 t stored)) in
  ((1 - u) / (1 + u) ^ (n - 1) - INR n * bpow radix2 (-150) <= S
     <= (1 + u) / (1 - u) ^ (n - 1) + INR n * bpow radix2 (-150))%R.
Proof. exact C09_F32.sum_close. Qed.
Print Assumptions C09_f32_sum_close_partial.

(* first-order form for at most 2^23 actions: | S - 1 | <= n * 2^-23 + n * 2^-150 *)
Theorem C09_f32_sum_close_first_order_partial : forall t stored, stored <> [] ->
  (Z.of_nat (length stored) <= 2 ^ 23)%Z ->
  is_finite (fsum32 (map floored32 (map (cumulated_gen REGRET_DIVISOR_AT_LEAST_ONE t) stored))) = true ->
  (Rabs (fold_right Rplus 0 (map (@B2R prec emax) (policy_f32 t stored)) - 1)
     <= INR (length stored) * bpow radix2 (-23) + INR (length stored) * bpow radix2 (-150))%R.
Proof. exact C09_F32.sum_close_first_order. Qed.
Print Assumptions C09_f32_sum_close_first_order_partial.

(* the complementary case: the sum overflows to +infinity, every entry is +0.0 (no abort, but the
   result is not a distribution).  Example: C09_F32.ex_overflow, ex_sum_overflows *)
Theorem C09_f32_sum_overflow_all_zero : forall t stored, (0 <= t < 2 ^ 64)%Z ->
  (forall r, In r stored -> r <> pos_inf) ->
  is_finite (fsum32 (map floored32 (map (cumulated_gen REGRET_DIVISOR_AT_LEAST_ONE t) stored))) = false ->
  Forall (fun p => p = B754_zero false) (policy_f32 t stored).
Proof. exact C09_F32.sum_overflow_all_zero. Qed.
Print Assumptions C09_f32_sum_overflow_all_zero.

(* concrete runs of the binary32 model *)
Theorem C09_f32_examples :
  (map (@B2SF prec emax) (policy_f32 5 [of_usize 3; B754_infinity true; B754_nan; of_usize (-2)]) =
     [SpecFloat.S754_finite false 8388608 (-23); SpecFloat.S754_finite false 13981013 (-149);
      SpecFloat.S754_finite false 13981013 (-149); SpecFloat.S754_finite false 13981013 (-149)] /\
   policy_aborts 5 [of_usize 3; B754_infinity true; B754_nan; of_usize (-2)] = false) /\
  (map (@B2SF prec emax) (policy_f32 5 [of_usize 3; pos_inf; of_usize (-2)]) =
     [SpecFloat.S754_zero false; SpecFloat.S754_nan; SpecFloat.S754_zero false] /\
   policy_aborts 5 [of_usize 3; pos_inf; of_usize (-2)] = true /\
   In pos_inf [of_usize 3; pos_inf; of_usize (-2)]).
Proof. exact (conj C09_F32.ex_mixed C09_F32.ex_infinite). Qed.
Print Assumptions C09_f32_examples.
