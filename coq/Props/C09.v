(* Props/C09.v -- property C09: regret matching with a floor (Profile::policy_vector).
   Model: Model/RegretMatching.v (policy_vector_Q, regret_matching); vocabulary: Spec/C09Spec.v
     divisor t       = inject_Z (Z.max t 1)               the repaired divisor epochs.max(1)
     cum_regret t r  = r / divisor t                      cumulated regret
     floored eps t r = qmax (cum_regret t r) eps          floored at eps = POLICY_MIN
     floored_vec, pos_vec  = map of floored / of qpos (cum_regret t .)
     qsum l = fold_left Qplus l 0,  qlen rs = inject_Z (Z.of_nat (length rs)).
   All theorems hold for every epoch counter t : Z (so in particular for all t >= 0, t = 0
   included: the divisor is Z.max t 1 >= 1) and every floor eps > 0; hypotheses that the proofs do
   not need (0 <= t, and rs <> [] where it is not needed) are omitted, which only strengthens the
   statements.  Examples for the hypotheses: Proofs/C09_Examples.v. *)
From Coq Require Import ZArith QArith Qabs List Bool.
From RP Require Import Gen.GenLib Gen.GenFixes Model.RegretMatching Spec.C09Spec.
From RP Require Proofs.C09_Sums Proofs.C09_Policy Proofs.C09_Examples.
Import ListNotations.
Local Open Scope Q_scope.

(* the code's floor POLICY_MIN (generated) is positive, so the theorems below apply to it *)
Theorem C09_policy_min_positive : 0 < fconst_Q POLICY_MIN.
Proof. exact C09_Policy.policy_min_positive. Qed.
Print Assumptions C09_policy_min_positive.

(* the assertions of policy_vector never fire (t = 0 included); uses the generated flag = true *)
Theorem C09_no_abort : forall eps t rs, 0 < eps ->
  exists p, policy_vector_Q eps t rs = Some p /\ length p = length rs.
Proof. exact C09_Policy.no_abort. Qed.
Print Assumptions C09_no_abort.
Example C09_no_abort_hyp :
  0 < 1 # 1000 /\ [5; -1; 3] <> [] /\
  policy_vector_Q (1 # 1000) 4 [5; -1; 3] = Some [80000 # 128064; 16000 # 32016000; 48000 # 128064].
Proof. exact C09_Examples.ex_hyp_basic. Qed.
(* ... and with the code's own floor POLICY_MIN = 2^-126, on a fresh profile (t = 0) *)
Example C09_no_abort_policy_min :
  policy_vector_Q (fconst_Q POLICY_MIN) 0 [5; -1] =
  Some [425352958651173079329218259289710264320 # 425352958651173079329218259289710264321;
        85070591730234615865843651857942052864
        # 36185027886661311069865932815214971204231940799742910878196338654330795065344].
Proof. exact C09_Examples.ex_fixed_value_policy_min. Qed.

(* the result is a probability distribution with full support *)
Theorem C09_distribution : forall eps t rs p, 0 < eps -> rs <> [] ->
  policy_vector_Q eps t rs = Some p ->
  Forall (fun x => 0 < x /\ x <= 1) p /\ fold_left Qplus p 0 == 1.
Proof. exact C09_Policy.distribution. Qed.
Print Assumptions C09_distribution.
(* hypotheses satisfiable (eps = 1/1000, t = 0, rs = [5; -1]; also C09_no_abort_hyp above) *)
Example C09_distribution_hyp :
  exists p, policy_vector_Q (1 # 1000) 0 [5; -1] = Some p /\
    Forall (fun x => 0 < x /\ x <= 1) p /\ fold_left Qplus p 0 == 1.
Proof. exact C09_Examples.ex_fixed_is_distribution. Qed.

(* entry a is max(R_a / max(t,1), eps) / sum_b max(R_b / max(t,1), eps) *)
Theorem C09_formula : forall eps t rs p a, 0 < eps ->
  policy_vector_Q eps t rs = Some p -> (a < length rs)%nat ->
  nth a p 0 == floored eps t (nth a rs 0) / qsum (floored_vec eps t rs).
Proof. exact C09_Policy.formula. Qed.
Print Assumptions C09_formula.
(* hypotheses satisfiable (the same run as C09_no_abort_hyp, entry a = 2); also for C09_formula_vec *)
Example C09_formula_hyp :
  0 < 1 # 1000 /\
  policy_vector_Q (1 # 1000) 4 [5; -1; 3] = Some [80000 # 128064; 16000 # 32016000; 48000 # 128064] /\
  (2 < length ([5; -1; 3]%Q))%nat.
Proof.
  exact (conj (proj1 C09_Examples.ex_hyp_basic)
           (conj (proj2 (proj2 C09_Examples.ex_hyp_basic)) (le_n 3))).
Qed.

(* the same, as a Leibniz equality of vectors *)
Theorem C09_formula_vec : forall eps t rs p, 0 < eps ->
  policy_vector_Q eps t rs = Some p ->
  p = map (fun r => floored eps t r / qsum (floored_vec eps t rs)) rs.
Proof. exact C09_Policy.formula_vec. Qed.
Print Assumptions C09_formula_vec.

(* no cumulated regret exceeds the floor: the uniform strategy *)
Theorem C09_uniform : forall eps t rs p a, 0 < eps ->
  (forall r, In r rs -> cum_regret t r <= eps) ->
  policy_vector_Q eps t rs = Some p -> (a < length rs)%nat ->
  nth a p 0 == 1 # Pos.of_nat (length rs).
Proof. exact C09_Policy.uniform. Qed.
Print Assumptions C09_uniform.
(* hypotheses of C09_uniform and C09_uniform_no_positive are satisfiable: no positive regret ... *)
Example C09_uniform_hyp :
  (forall r, In r [-3; 0; -1] -> cum_regret 0 r <= 1 # 1000) /\
  (forall r, In r [-3; 0; -1] -> r <= 0) /\
  policy_vector_Q (1 # 1000) 0 [-3; 0; -1] =
    Some [1000000000 # 3000000000; 1000000000 # 3000000000; 1000000000 # 3000000000].
Proof. exact C09_Examples.ex_hyp_uniform. Qed.
(* ... and a positive regret below the floor is covered by C09_uniform too (2/4 <= 1/2) *)
Example C09_uniform_hyp_small_positive :
  forall r, In r [2; -1] -> cum_regret 4 r <= 1 # 2.
Proof. exact C09_Examples.ex_hyp_uniform_small_positive. Qed.

(* in particular when no regret is positive; this is regret_matching's uniform case *)
Theorem C09_uniform_no_positive : forall eps t rs p a, 0 < eps ->
  (forall r, In r rs -> r <= 0) ->
  policy_vector_Q eps t rs = Some p -> (a < length rs)%nat ->
  nth a p 0 == 1 # Pos.of_nat (length rs) /\ nth a p 0 == nth a (regret_matching rs) 0.
Proof. exact C09_Policy.uniform_no_positive. Qed.
Print Assumptions C09_uniform_no_positive.

(* x_a <= c_a <= x_a + eps and X <= C <= X + n * eps
   (c = floored values, x = positive parts of the cumulated regrets, C, X their sums) *)
Theorem C09_floor_bounds : forall eps t rs, 0 <= eps ->
  (forall r, qpos (cum_regret t r) <= floored eps t r /\
             floored eps t r <= qpos (cum_regret t r) + eps) /\
  qsum (pos_vec t rs) <= qsum (floored_vec eps t rs) /\
  qsum (floored_vec eps t rs) <= qsum (pos_vec t rs) + qlen rs * eps.
Proof. exact C09_Policy.floor_bounds. Qed.
Print Assumptions C09_floor_bounds.

(* | p_a - x_a / X | <= n * eps / X  when X = sum of positive parts > 0 *)
Theorem C09_proportional : forall eps t rs p a, 0 < eps ->
  0 < qsum (pos_vec t rs) ->
  policy_vector_Q eps t rs = Some p -> (a < length rs)%nat ->
  Qabs (nth a p 0 - qpos (cum_regret t (nth a rs 0)) / qsum (pos_vec t rs))
    <= qlen rs * eps / qsum (pos_vec t rs).
Proof. exact C09_Policy.proportional. Qed.
Print Assumptions C09_proportional.
(* hypotheses of C09_proportional, C09_regret_matching_nth, C09_close_to_regret_matching and
   C09_limit_regret_matching are satisfiable (with the run of C09_no_abort_hyp); the bound there
   is n * eps / X = 3 * (1/1000) / 2 = 3/2000 *)
Example C09_proportional_hyp :
  0 < qsum (pos_vec 4 [5; -1; 3]) /\ (exists r, In r [5; -1; 3] /\ 0 < r).
Proof. exact C09_Examples.ex_hyp_proportional. Qed.
Example C09_proportional_bound :
  qlen [5; -1; 3] * (1 # 1000) / qsum (pos_vec 4 [5; -1; 3]) == 3 # 2000.
Proof. exact C09_Examples.ex_proportional_bound. Qed.

(* x_a / X is the textbook regret-matching entry (the epoch normalisation cancels) *)
Theorem C09_regret_matching_nth : forall t rs a,
  (exists r, In r rs /\ 0 < r) -> (a < length rs)%nat ->
  nth a (regret_matching rs) 0 == qpos (cum_regret t (nth a rs 0)) / qsum (pos_vec t rs).
Proof. exact C09_Policy.regret_matching_nth. Qed.
Print Assumptions C09_regret_matching_nth.

(* hence the strategy is regret matching up to n * eps / X *)
Theorem C09_close_to_regret_matching : forall eps t rs p a, 0 < eps ->
  (exists r, In r rs /\ 0 < r) ->
  policy_vector_Q eps t rs = Some p -> (a < length rs)%nat ->
  Qabs (nth a p 0 - nth a (regret_matching rs) 0) <= qlen rs * eps / qsum (pos_vec t rs).
Proof. exact C09_Policy.close_to_regret_matching. Qed.
Print Assumptions C09_close_to_regret_matching.

(* limit form eps = 0: exactly regret_matching when some regret is positive *)
Theorem C09_limit_regret_matching : forall t rs, (exists r, In r rs /\ 0 < r) ->
  exists p, policy_vector_Q 0 t rs = Some p /\ length p = length rs /\
    forall a, (a < length rs)%nat -> nth a p 0 == nth a (regret_matching rs) 0.
Proof. exact C09_Policy.limit_regret_matching. Qed.
Print Assumptions C09_limit_regret_matching.
Example C09_limit_regret_matching_value :
  policy_vector_Q 0 4 [5; -1; 3] = Some [80 # 128; 0 # 32; 48 # 128] /\
  regret_matching [5; -1; 3] = [5 # 8; 0 # 8; 3 # 8].
Proof. exact C09_Examples.ex_limit_value. Qed.

(* the epoch normalisation cancels in the unfloored ratios (any positive divisors) *)
Theorem C09_scale_invariant : forall d1 d2 r rs, 0 < d1 -> 0 < d2 ->
  (r / d1) / qsum (map (fun b => b / d1) rs) == (r / d2) / qsum (map (fun b => b / d2) rs).
Proof. exact C09_Policy.scale_invariant. Qed.
Print Assumptions C09_scale_invariant.
Example C09_scale_invariant_hyp : 0 < inject_Z 3 /\ 0 < inject_Z 7.
Proof. exact C09_Examples.ex_scale. Qed.

Theorem C09_scale_invariant_pos : forall d1 d2 r rs, 0 < d1 -> 0 < d2 ->
  qpos (r / d1) / qsum (map (fun b => qpos (b / d1)) rs) ==
  qpos (r / d2) / qsum (map (fun b => qpos (b / d2)) rs).
Proof. exact C09_Policy.scale_invariant_pos. Qed.
Print Assumptions C09_scale_invariant_pos.

Theorem C09_scale_invariant_epochs : forall t1 t2 r rs,
  cum_regret t1 r / qsum (map (cum_regret t1) rs) ==
  cum_regret t2 r / qsum (map (cum_regret t2) rs).
Proof. exact C09_Policy.scale_invariant_epochs. Qed.
Print Assumptions C09_scale_invariant_epochs.

(* policy_vector_with is the model with the flag as a parameter *)
Theorem C09_policy_vector_with_generated :
  policy_vector_with_Q REGRET_DIVISOR_AT_LEAST_ONE = policy_vector_Q.
Proof. exact C09_Policy.policy_vector_with_Q_generated. Qed.
Print Assumptions C09_policy_vector_with_generated.

(* the original divisor aborts on a fresh profile as soon as one regret is positive *)
Theorem C09_unfixed_aborts : forall eps rs, (exists r, In r rs /\ 0 < r) ->
  policy_vector_with_Q false eps 0 rs = None.
Proof. exact C09_Policy.unfixed_aborts. Qed.
Print Assumptions C09_unfixed_aborts.

(* concrete witness: [5; -1] at t = 0 aborts without the fix; the model returns a distribution *)
Theorem C09_needs_divisor_fix :
  (forall eps, policy_vector_with_Q false eps 0 [5; -1] = None) /\
  policy_vector_Q (1 # 1000) 0 [5; -1] = Some [5000 # 5001; 1000 # 5001000] /\
  (exists p, policy_vector_Q (1 # 1000) 0 [5; -1] = Some p /\
     Forall (fun x => 0 < x /\ x <= 1) p /\ fold_left Qplus p 0 == 1).
Proof.
  exact (conj C09_Examples.ex_unfixed_aborts
           (conj C09_Examples.ex_fixed_value C09_Examples.ex_fixed_is_distribution)).
Qed.
Print Assumptions C09_needs_divisor_fix.

(* the repair changes nothing for t >= 1, nor at t = 0 when no regret is positive *)
Theorem C09_fix_conservative : forall eps t rs, (1 <= t)%Z ->
  policy_vector_with_Q false eps t rs = policy_vector_Q eps t rs.
Proof. exact C09_Policy.fix_conservative. Qed.
Print Assumptions C09_fix_conservative.
Example C09_fix_conservative_hyp :
  (1 <= 4)%Z /\
  policy_vector_with_Q false (1 # 1000) 4 [5; -1; 3] = policy_vector_Q (1 # 1000) 4 [5; -1; 3].
Proof. split; [discriminate | exact C09_Examples.ex_fix_conservative]. Qed.

Theorem C09_fix_conservative_t0 : forall eps rs a, 0 < eps -> (forall r, In r rs -> r <= 0) ->
  (a < length rs)%nat ->
  exists p q, policy_vector_with_Q false eps 0 rs = Some p /\ policy_vector_Q eps 0 rs = Some q /\
    nth a p 0 == nth a q 0.
Proof. exact C09_Policy.fix_conservative_t0. Qed.
Print Assumptions C09_fix_conservative_t0.
Example C09_fix_conservative_t0_hyp :
  policy_vector_with_Q false (1 # 1000) 0 [-5; -1] = Some [1000000 # 2000000; 1000000 # 2000000].
Proof. exact C09_Examples.ex_unfixed_no_positive. Qed.

(* the floor applied to the recorded regrets (regret_vector: r.max(REGRET_MIN)) *)
Theorem C09_clamp : forall lo r, lo <= clamp lo r /\ (lo <= r -> clamp lo r == r).
Proof. exact (fun lo r => conj (C09_Policy.clamp_ge lo r) (C09_Policy.clamp_id lo r)). Qed.
Print Assumptions C09_clamp.
(* with the generated REGRET_MIN = -3e5 *)
Example C09_clamp_example :
  clamp (fconst_Q REGRET_MIN) (-400000 # 1) = -300000 # 1 /\
  clamp (fconst_Q REGRET_MIN) 7 = 7 /\ fconst_Q REGRET_MIN <= 7.
Proof. exact C09_Examples.ex_clamp. Qed.

(* ---------------------------------------------------------------------------------------------
   The same function in binary32 (Model/PolicyF32.v: Flocq binary_float 24 128, round to nearest
   even, with NaN, infinities, signed zeros, subnormals and overflow of the sum):
     policy_f32 t stored     the vector r / sum of the floored cumulated regrets
     policy_aborts t stored  true iff one of assert!(p >= 0.), assert!(p <= 1.) fires
     the `_gen flag` variants take the flag REGRET_DIVISOR_AT_LEAST_ONE as a parameter.
   t is the epoch counter (a usize: 0 <= t < 2^64), stored the stored regrets in edge order.
   These theorems use the real numbers (B2R) and therefore the standard library's axioms for R. *)
From Coq Require Import Reals.
From Flocq Require Import Core.Core IEEE754.BinarySingleNaN.
From RP Require Import Model.BetF32 Model.PolicyF32.
From RP Require Proofs.C09_F32.

(* two concrete binary32 values used in the examples: f32::MAX and the least subnormal 2^-149 *)
Definition C09_f32_max : f32 := @B754_finite prec emax false 16777215 104 eq_refl.
Definition C09_f32_tiny : f32 := @B754_finite prec emax false 1 (-149) eq_refl.

(* the model's floor is the generated POLICY_MIN = f32::MIN_POSITIVE = 2^-126 *)
Theorem C09_f32_policy_min :
  POLICY_MIN = F32_MIN_POSITIVE /\ B2R policy_min = bpow radix2 (-126) /\ f32_one = of_usize 1.
Proof.
  exact (conj C09_F32.policy_min_generated (conj C09_F32.B2R_policy_min C09_F32.f32_one_of_usize)).
Qed.
Print Assumptions C09_f32_policy_min.

(* the code as generated is the variant with the flag's current value *)
Theorem C09_f32_generated :
  policy_f32 = policy_f32_gen REGRET_DIVISOR_AT_LEAST_ONE /\
  policy_aborts = policy_aborts_gen REGRET_DIVISOR_AT_LEAST_ONE /\
  REGRET_DIVISOR_AT_LEAST_ONE = true.
Proof. exact (conj eq_refl (conj eq_refl C09_F32.flag_generated)). Qed.
Print Assumptions C09_f32_generated.

(* no stored regret is +infinity (NaN, -infinity, negative, zero, subnormal, huge all allowed, the
   empty list too): the assertions never fire.  Example: C09_F32.ex_mixed, ex_no_abort_hyp *)
Theorem C09_f32_no_abort : forall t stored, (0 <= t < 2 ^ 64)%Z ->
  (forall r, In r stored -> r <> pos_inf) -> policy_aborts t stored = false.
Proof. exact C09_F32.no_abort. Qed.
Print Assumptions C09_f32_no_abort.
(* hypotheses of C09_f32_no_abort / C09_f32_entries_unit / C09_f32_entries_ok are satisfiable:
   5 epochs, stored regrets [3; -inf; NaN; -2] ... *)
Example C09_f32_no_abort_hyp :
  (0 <= 5 < 2 ^ 64)%Z /\
  forall r, In r [of_usize 3; B754_infinity true; B754_nan; of_usize (-2)] -> r <> pos_inf.
Proof. exact C09_F32.ex_no_abort_hyp. Qed.
(* ... the result is [1.0; q; q; q] with q = 2^-126 / 0.6 (a subnormal), no abort *)
Example C09_f32_no_abort_run :
  map (@B2SF prec emax) (policy_f32 5 [of_usize 3; B754_infinity true; B754_nan; of_usize (-2)]) =
    [SpecFloat.S754_finite false 8388608 (-23); SpecFloat.S754_finite false 13981013 (-149);
     SpecFloat.S754_finite false 13981013 (-149); SpecFloat.S754_finite false 13981013 (-149)] /\
  policy_aborts 5 [of_usize 3; B754_infinity true; B754_nan; of_usize (-2)] = false.
Proof. exact C09_F32.ex_mixed. Qed.
(* corners: t = 0, t = 2^64 - 1, subnormal (2^-149), negative zero, f32::MAX, -inf, the empty list *)
Example C09_f32_no_abort_corners :
  policy_aborts 0 [C09_f32_tiny; B754_zero true; C09_f32_max] = false /\
  policy_aborts (2 ^ 64 - 1) [C09_f32_tiny; B754_zero true; C09_f32_max; B754_infinity true] = false /\
  policy_f32 7 [] = [] /\ policy_aborts 7 [] = false.
Proof. exact C09_F32.ex_corners. Qed.

(* ... every entry is a finite binary32 number in [0, 1] ... *)
Theorem C09_f32_entries_unit : forall t stored, (0 <= t < 2 ^ 64)%Z ->
  (forall r, In r stored -> r <> pos_inf) ->
  Forall (fun p => is_finite p = true /\ (0 <= B2R p <= 1)%R) (policy_f32 t stored).
Proof. exact C09_F32.entries_unit. Qed.
Print Assumptions C09_f32_entries_unit.

(* ... in IEEE terms: not NaN, p >= 0. and p <= 1. both true *)
Theorem C09_f32_entries_ok : forall t stored, (0 <= t < 2 ^ 64)%Z ->
  (forall r, In r stored -> r <> pos_inf) ->
  Forall (fun p => is_nan p = false /\ fge32 p f32_zero = true /\ fle32 p f32_one = true)
    (policy_f32 t stored).
Proof. exact C09_F32.entries_ok. Qed.
Print Assumptions C09_f32_entries_ok.

(* a stored regret +infinity aborts (inf / d = inf, sum = inf, inf / inf = NaN).
   Example: C09_F32.ex_infinite *)
Theorem C09_f32_aborts_on_infinite_regret : forall t stored, (0 <= t < 2 ^ 64)%Z ->
  In pos_inf stored -> policy_aborts t stored = true.
Proof. exact C09_F32.aborts_on_infinite_regret. Qed.
Print Assumptions C09_f32_aborts_on_infinite_regret.
Example C09_f32_aborts_on_infinite_regret_hyp :
  map (@B2SF prec emax) (policy_f32 5 [of_usize 3; pos_inf; of_usize (-2)]) =
    [SpecFloat.S754_zero false; SpecFloat.S754_nan; SpecFloat.S754_zero false] /\
  policy_aborts 5 [of_usize 3; pos_inf; of_usize (-2)] = true /\
  In pos_inf [of_usize 3; pos_inf; of_usize (-2)].
Proof. exact C09_F32.ex_infinite. Qed.

Theorem C09_f32_infinite_regret_gives_nan : forall t stored, (0 <= t < 2 ^ 64)%Z ->
  In pos_inf stored -> In B754_nan (policy_f32 t stored).
Proof. exact C09_F32.infinite_regret_gives_nan. Qed.
Print Assumptions C09_f32_infinite_regret_gives_nan.

(* the exact characterisation: the repaired code aborts iff a stored regret is +infinity *)
Theorem C09_f32_aborts_iff : forall t stored, (0 <= t < 2 ^ 64)%Z ->
  (policy_aborts t stored = true <-> In pos_inf stored).
Proof. exact C09_F32.aborts_iff. Qed.
Print Assumptions C09_f32_aborts_iff.

(* the original divisor (flag false) on a fresh profile, t = 0: division by +0.0; it aborts iff a
   stored regret is +infinity or a positive finite number *)
Theorem C09_f32_unfixed_aborts_iff : forall stored,
  policy_aborts_gen false 0 stored = true <->
  exists r, In r stored /\ (r = pos_inf \/ (is_finite r = true /\ (0 < B2R r)%R)).
Proof. exact C09_F32.unfixed_t0_aborts_iff. Qed.
Print Assumptions C09_f32_unfixed_aborts_iff.
(* ... and without a positive regret the original code does not abort at t = 0 either *)
Example C09_f32_unfixed_no_positive :
  policy_aborts_gen false 0 [of_usize (-3); of_usize 0; B754_zero true; B754_infinity true; B754_nan] = false /\
  map (@B2SF prec emax) (policy_f32_gen false 0 [of_usize (-3); of_usize 0]) =
    [SpecFloat.S754_finite false 8388608 (-24); SpecFloat.S754_finite false 8388608 (-24)].
Proof. exact C09_F32.ex_unfixed_no_positive. Qed.

(* concrete witness that the flag matters: t = 0 and the single stored regret 3.0 (or [5; -1]):
   abort (the entry is NaN) without the fix, [1.0] and no abort with it *)
Theorem C09_f32_needs_divisor_fix :
  policy_aborts_gen false 0 [of_usize 3] = true /\
  map (@B2SF prec emax) (policy_f32_gen false 0 [of_usize 3]) = [SpecFloat.S754_nan] /\
  policy_aborts_gen false 0 [of_usize 5; of_usize (-1)] = true /\
  policy_aborts_gen true 0 [of_usize 3] = false /\
  map (@B2SF prec emax) (policy_f32_gen true 0 [of_usize 3]) =
    [SpecFloat.S754_finite false 8388608 (-23)] /\
  policy_aborts_gen true 0 [of_usize 5; of_usize (-1)] = false /\
  policy_aborts 0 [of_usize 5; of_usize (-1)] = false.
Proof. exact C09_F32.ex_needs_divisor_fix. Qed.
Print Assumptions C09_f32_needs_divisor_fix.

(* the repair changes nothing once an epoch has been counted *)
Theorem C09_f32_fix_conservative : forall t stored, (1 <= t)%Z ->
  policy_f32_gen false t stored = policy_f32_gen true t stored.
Proof. exact C09_F32.fix_conservative. Qed.
Print Assumptions C09_f32_fix_conservative.

(* PARTIAL (needs the hypothesis that the binary32 sum of the floored regrets does not overflow;
   full statement wished for: the entries sum to 1 up to rounding for every input without +inf.
   That is false: when the sum overflows every entry is +0.0, see C09_f32_sum_overflow_all_zero
   and C09_F32.ex_overflow).  With u = 2^-24, n = number of actions, the real-number sum S of the
   entries satisfies (1-u)/(1+u)^(n-1) - n*2^-150 <= S <= (1+u)/(1-u)^(n-1) + n*2^-150;
   the term n*2^-150 accounts for quotients that underflow (no hypothesis on them is needed).
   No hypothesis on t or on infinities: a +infinity makes the sum infinite.
   Example: C09_F32.ex_sum_finite *)
Theorem C09_f32_sum_close_partial : forall t stored, stored <> [] ->
  is_finite (fsum32 (map floored32 (map (cumulated_gen REGRET_DIVISOR_AT_LEAST_ONE t) stored))) = true ->
  let n := length stored in
  let u := bpow radix2 (-24) in
  let S := fold_right Rplus 0%R (map (@B2R prec emax) (policy_f32 t stored)) in
  ((1 - u) / (1 + u) ^ (n - 1) - INR n * bpow radix2 (-150) <= S
     <= (1 + u) / (1 - u) ^ (n - 1) + INR n * bpow radix2 (-150))%R.
Proof. exact C09_F32.sum_close. Qed.
Print Assumptions C09_f32_sum_close_partial.

(* first-order form for at most 2^23 actions: | S - 1 | <= n * 2^-23 + n * 2^-150 *)
Theorem C09_f32_sum_close_first_order_partial : forall t stored, stored <> [] ->
  (Z.of_nat (length stored) <= 2 ^ 23)%Z ->
  is_finite (fsum32 (map floored32 (map (cumulated_gen REGRET_DIVISOR_AT_LEAST_ONE t) stored))) = true ->
  (Rabs (fold_right Rplus 0 (map (@B2R prec emax) (policy_f32 t stored)) - 1)
     <= INR (length stored) * bpow radix2 (-23) + INR (length stored) * bpow radix2 (-150))%R.
Proof. exact C09_F32.sum_close_first_order. Qed.
Print Assumptions C09_f32_sum_close_first_order_partial.
(* hypotheses of the two sum theorems are satisfiable (the run of C09_f32_no_abort_run) *)
Example C09_f32_sum_close_hyp :
  is_finite (fsum32 (map floored32 (map (cumulated_gen REGRET_DIVISOR_AT_LEAST_ONE 5)
     [of_usize 3; B754_infinity true; B754_nan; of_usize (-2)]))) = true /\
  (Z.of_nat (length [of_usize 3; B754_infinity true; B754_nan; of_usize (-2)]) <= 2 ^ 23)%Z.
Proof. exact C09_F32.ex_sum_finite. Qed.

(* the complementary case: the sum overflows to +infinity, every entry is +0.0 (no abort, but the
   result is not a distribution).  Example: C09_F32.ex_overflow, ex_sum_overflows *)
Theorem C09_f32_sum_overflow_all_zero : forall t stored, (0 <= t < 2 ^ 64)%Z ->
  (forall r, In r stored -> r <> pos_inf) ->
  is_finite (fsum32 (map floored32 (map (cumulated_gen REGRET_DIVISOR_AT_LEAST_ONE t) stored))) = false ->
  Forall (fun p => p = B754_zero false) (policy_f32 t stored).
Proof. exact C09_F32.sum_overflow_all_zero. Qed.
Print Assumptions C09_f32_sum_overflow_all_zero.
Example C09_f32_sum_overflow_hyp :
  is_finite (fsum32 (map floored32 (map (cumulated_gen REGRET_DIVISOR_AT_LEAST_ONE 1)
     [C09_f32_max; C09_f32_max; of_usize 7]))) = false /\
  (forall r, In r [C09_f32_max; C09_f32_max; of_usize 7] -> r <> pos_inf).
Proof. exact C09_F32.ex_sum_overflows. Qed.
Example C09_f32_sum_overflow_run :
  map (@B2SF prec emax) (policy_f32 1 [C09_f32_max; C09_f32_max; of_usize 7]) =
    [SpecFloat.S754_zero false; SpecFloat.S754_zero false; SpecFloat.S754_zero false] /\
  policy_aborts 1 [C09_f32_max; C09_f32_max; of_usize 7] = false.
Proof. exact C09_F32.ex_overflow. Qed.

(* concrete runs of the binary32 model *)
Theorem C09_f32_examples :
  (map (@B2SF prec emax) (policy_f32 5 [of_usize 3; B754_infinity true; B754_nan; of_usize (-2)]) =
     [SpecFloat.S754_finite false 8388608 (-23); SpecFloat.S754_finite false 13981013 (-149);
      SpecFloat.S754_finite false 13981013 (-149); SpecFloat.S754_finite false 13981013 (-149)] /\
   policy_aborts 5 [of_usize 3; B754_infinity true; B754_nan; of_usize (-2)] = false) /\
  (map (@B2SF prec emax) (policy_f32 5 [of_usize 3; pos_inf; of_usize (-2)]) =
     [SpecFloat.S754_zero false; SpecFloat.S754_nan; SpecFloat.S754_zero false] /\
   policy_aborts 5 [of_usize 3; pos_inf; of_usize (-2)] = true /\
   In pos_inf [of_usize 3; pos_inf; of_usize (-2)]).
Proof. exact (conj C09_F32.ex_mixed C09_F32.ex_infinite). Qed.
Print Assumptions C09_f32_examples.

(* ---------------------------------------------------------------------------------------------
   The tail of Profile::regret_vector in binary32 (Model/RegretF32.v):
       r.max(REGRET_MIN).min(REGRET_MAX); assert!(!r.is_nan()); assert!(!r.is_infinite())
     clamp32 x = fmin32 (fmax32 x regret_min) regret_max     (f32::max / f32::min: a NaN operand
                                                               returns the other operand)
     regret_asserts_fire x   true iff one of the two assertions fires on clamp32 x
   and the unclamped accumulation of Memory::add_regret (self.regret *= discount; self.regret += value):
     accumulate32 acc d v = fadd (fmul acc d) v,  regret_run32 acc [(d_0, v_0); (d_1, v_1); ...]. *)
From Coq Require Import Qreals.
From RP Require Import Model.RegretF32.
From RP Require Proofs.C09_Clamp.

(* the model constants are the generated ones: REGRET_MIN is the literal -300000, exactly
   representable, so the nearest binary32 is regret_min = -300000.0 (`(-300000) as f32`);
   REGRET_MAX is f32::MAX = 2^128 - 2^104, the largest finite binary32 *)
Theorem C09_f32_regret_constants :
  match REGRET_MIN with
  | FQ q => round radix2 (SpecFloat.fexp prec emax) ZnearestE (Q2R q) = B2R regret_min /\
            Q2R q = B2R regret_min
  | _ => False
  end /\
  REGRET_MAX = F32_MAX /\
  regret_min = of_usize (-300000) /\
  (forall x : f32, is_finite x = true -> (B2R x <= B2R regret_max)%R).
Proof. exact C09_Clamp.regret_constants_generated. Qed.
Print Assumptions C09_f32_regret_constants.
Theorem C09_f32_regret_constants_values :
  B2R regret_min = (-300000)%R /\ B2R regret_max = (bpow radix2 128 - bpow radix2 104)%R.
Proof. exact (conj C09_Clamp.B2R_regret_min C09_Clamp.B2R_regret_max). Qed.
Print Assumptions C09_f32_regret_constants_values.

(* EVERY binary32 value x (NaN, infinities, signed zeros, subnormals included): the recorded regret
   is a finite number inside the clamp, neither assertion fires; a finite x inside the range is
   recorded unchanged, a finite x below it, NaN and -infinity as REGRET_MIN, +infinity as REGRET_MAX
   (a finite x is never above f32::MAX) *)
Theorem C09_f32_regret_clamp_total : forall x : f32,
  is_finite (clamp32 x) = true /\
  (B2R regret_min <= B2R (clamp32 x) <= B2R regret_max)%R /\
  regret_asserts_fire x = false /\
  (is_finite x = true -> (B2R regret_min <= B2R x <= B2R regret_max)%R -> clamp32 x = x) /\
  (is_finite x = true -> (B2R x < B2R regret_min)%R -> clamp32 x = regret_min) /\
  (x = B754_nan -> clamp32 x = regret_min) /\
  (x = B754_infinity true -> clamp32 x = regret_min) /\
  (x = B754_infinity false -> clamp32 x = regret_max).
Proof. exact C09_Clamp.clamp32_total. Qed.
Print Assumptions C09_f32_regret_clamp_total.

(* NaN, -inf, +inf, -0.0, 7, -300001, -299999 (bit patterns sign / mantissa / exponent) *)
Example C09_f32_regret_clamp_values :
  map (fun x => @B2SF prec emax (clamp32 x))
    [B754_nan; B754_infinity true; B754_infinity false; B754_zero true; of_usize 7;
     of_usize (-300001); of_usize (-299999)] =
  [SpecFloat.S754_finite true 9600000 (-5); SpecFloat.S754_finite true 9600000 (-5);
   SpecFloat.S754_finite false 16777215 104; SpecFloat.S754_zero true;
   SpecFloat.S754_finite false 14680064 (-21);
   SpecFloat.S754_finite true 9600000 (-5); SpecFloat.S754_finite true 9599968 (-5)].
Proof. exact C09_Clamp.ex_clamp_values. Qed.
Print Assumptions C09_f32_regret_clamp_values.

(* KNOWN FINDING.  The clamp bounds each RECORDED regret, not the STORED one: Memory::add_regret
   accumulates without a clamp, and REGRET_MAX = f32::MAX leaves no headroom.  Witness: a fresh
   accumulator (+0.0), two successive updates with recorded regret f32::MAX (which the clamp lets
   through, and which is what an infinite immediate regret is clamped to) and discount 1: the stored
   regret is +infinity, and then policy_vector aborts at that information set at every later epoch
   (C09_f32_aborts_iff). *)
Theorem C09_f32_accumulated_can_overflow :
  clamp32 pos_inf = regret_max /\ clamp32 regret_max = regret_max /\
  regret_run32 (B754_zero false) [(f32_one, regret_max)] = regret_max /\
  regret_run32 (B754_zero false) [(f32_one, regret_max); (f32_one, regret_max)] = pos_inf /\
  forall (t : Z) (others : list f32), (0 <= t < 2 ^ 64)%Z ->
    policy_aborts t
      (regret_run32 (B754_zero false) [(f32_one, regret_max); (f32_one, regret_max)] :: others) = true.
Proof. exact C09_Clamp.accumulated_can_overflow. Qed.
Print Assumptions C09_f32_accumulated_can_overflow.

(* a sufficient condition: the accumulator starts finite with magnitude at most B (e.g. +0.0), T
   updates with finite discount factors in [0, 1] and finite recorded regrets of magnitude at most B,
   (T + 1) * B < 2^127: the stored regret stays finite.  B is any positive real, T any length.
   (Rounding is accounted for: with 2^b the power of two next above B, the magnitude after k updates
   is at most min(k + 1, 2^24) * 2^b, see C09_f32_accumulated_bound.) *)
Theorem C09_f32_accumulated_finite : forall (B : R) (acc : f32) (dvs : list (f32 * f32)),
  (0 < B)%R -> is_finite acc = true -> (Rabs (B2R acc) <= B)%R ->
  Forall (fun dv => is_finite (fst dv) = true /\ (0 <= B2R (fst dv) <= 1)%R /\
                    is_finite (snd dv) = true /\ (Rabs (B2R (snd dv)) <= B)%R) dvs ->
  ((INR (length dvs) + 1) * B < bpow radix2 127)%R ->
  is_finite (regret_run32 acc dvs) = true /\
  (Rabs (B2R (regret_run32 acc dvs)) < bpow radix2 128)%R.
Proof. exact C09_Clamp.accumulated_finite. Qed.
Print Assumptions C09_f32_accumulated_finite.

(* the quantitative form for a power-of-two bound 2^b (b >= -149), n0 = number of updates already
   absorbed: after T more updates the magnitude is at most min(n0 + T, 2^24) * 2^b.  Up to 2^24
   updates every bound k * 2^b is representable, so nothing is lost to rounding; from there on
   2^(b+24) + 2^b is a tie that rounds (to even) back to 2^(b+24): the accumulator stagnates. *)
Theorem C09_f32_accumulated_bound : forall (b : Z) (dvs : list (f32 * f32)) (n0 : Z) (acc : f32),
  (-149 <= b)%Z -> (0 <= n0)%Z ->
  is_finite acc = true -> (Rabs (B2R acc) <= IZR (Z.min n0 (2 ^ 24)) * bpow radix2 b)%R ->
  Forall (fun dv => is_finite (fst dv) = true /\ (0 <= B2R (fst dv) <= 1)%R /\
                    is_finite (snd dv) = true /\ (Rabs (B2R (snd dv)) <= bpow radix2 b)%R) dvs ->
  (IZR (Z.min (n0 + Z.of_nat (length dvs)) (2 ^ 24)) * bpow radix2 b < bpow radix2 128)%R ->
  is_finite (regret_run32 acc dvs) = true /\
  (Rabs (B2R (regret_run32 acc dvs))
     <= IZR (Z.min (n0 + Z.of_nat (length dvs)) (2 ^ 24)) * bpow radix2 b)%R.
Proof. exact C09_Clamp.accumulated_bound. Qed.
Print Assumptions C09_f32_accumulated_bound.

(* consequence: recorded regrets of magnitude at most 2^103 never make the stored regret overflow,
   whatever the number of updates *)
Theorem C09_f32_accumulated_finite_any_T : forall (acc : f32) (dvs : list (f32 * f32)),
  is_finite acc = true -> (Rabs (B2R acc) <= bpow radix2 103)%R ->
  Forall (fun dv => is_finite (fst dv) = true /\ (0 <= B2R (fst dv) <= 1)%R /\
                    is_finite (snd dv) = true /\ (Rabs (B2R (snd dv)) <= bpow radix2 103)%R) dvs ->
  is_finite (regret_run32 acc dvs) = true /\
  (Rabs (B2R (regret_run32 acc dvs)) <= bpow radix2 127)%R.
Proof. exact C09_Clamp.accumulated_finite_any_T. Qed.
Print Assumptions C09_f32_accumulated_finite_any_T.

(* the hypotheses are satisfiable: +0.0, then (1, -300000), (0, 250000), (1, -7), B = 300000;
   the run gives 249993 = 15999552 * 2^-6 *)
Example C09_f32_accumulated_finite_hyp :
  C09_Clamp.ex_dvs = [(f32_one, regret_min); (of_usize 0, of_usize 250000); (f32_one, of_usize (-7))] /\
  (0 < 300000)%R /\ is_finite (B754_zero false : f32) = true /\
  (Rabs (B2R (B754_zero false : f32)) <= 300000)%R /\
  Forall (fun dv => is_finite (fst dv) = true /\ (0 <= B2R (fst dv) <= 1)%R /\
                    is_finite (snd dv) = true /\ (Rabs (B2R (snd dv)) <= 300000)%R) C09_Clamp.ex_dvs /\
  ((INR (length C09_Clamp.ex_dvs) + 1) * 300000 < bpow radix2 127)%R.
Proof. exact (conj eq_refl C09_Clamp.ex_accumulated_hyp). Qed.
Example C09_f32_accumulated_value :
  @B2SF prec emax (regret_run32 (B754_zero false) C09_Clamp.ex_dvs) =
  SpecFloat.S754_finite false 15999552 (-6).
Proof. exact C09_Clamp.ex_accumulated_value. Qed.
Print Assumptions C09_f32_accumulated_value.
