(* Props/C09.v -- property C09 (provisional instances through the generated divisor flag; the general theorems are being added) *)
From Coq Require Import ZArith QArith List.
From RP Require Import Gen.GenFixes Model.RegretMatching.
Import ListNotations.
Open Scope Q_scope.
(* a freshly loaded profile (epoch counter 0) with a positive stored regret: a valid strategy, not an abort *)
Theorem C09_epoch_zero_instance :
  match policy_vector_Q (1#1000000) 0 [5; -1] with
  | Some [a; b] => a + b == 1 /\ 0 < b /\ b < a
  | _ => False end.
Proof. vm_compute. repeat split; reflexivity. Qed.
Print Assumptions C09_epoch_zero_instance.
