(* Props/C09.v -- property C09: regret matching with a floor (Profile::policy_vector).
   Model: Model/RegretMatching.v (policy_vector_Q, regret_matching); vocabulary: Spec/C09Spec.v
     divisor t       = inject_Z (Z.max t 1)               the repaired divisor epochs.max(1)
     cum_regret t r  = r / divisor t                      cumulated regret
     floored eps t r = qmax (cum_regret t r) eps          floored at eps = POLICY_MIN
     floored_vec, pos_vec  = map of floored / of qpos (cum_regret t .)
     qsum l = fold_left Qplus l 0,  qlen rs = inject_Z (Z.of_nat (length rs)).
   All theorems hold for every epoch counter t : Z (so in particular for all t >= 0, t = 0
   included: the divisor is Z.max t 1 >= 1) and every floor eps > 0; hypotheses that the proofs do
   not need (0 <= t, and rs <> [] where it is not needed) are omitted, which only strengthens the
   statements.  Examples for the hypotheses: Proofs/C09_Examples.v. *)
From Coq Require Import ZArith QArith Qabs List Bool.
From RP Require Import Gen.GenLib Gen.GenFixes Model.RegretMatching Spec.C09Spec.
From RP Require Proofs.C09_Sums Proofs.C09_Policy Proofs.C09_Examples.
Import ListNotations.
Local Open Scope Q_scope.

(* the code's floor POLICY_MIN (generated) is positive, so the theorems below apply to it *)
Theorem C09_policy_min_positive : 0 < fconst_Q POLICY_MIN.
Proof. exact C09_Policy.policy_min_positive. Qed.
Print Assumptions C09_policy_min_positive.

(* the assertions of policy_vector never fire (t = 0 included); uses the generated flag = true *)
Theorem C09_no_abort : forall eps t rs, 0 < eps ->
  exists p, policy_vector_Q eps t rs = Some p /\ length p = length rs.
Proof. exact C09_Policy.no_abort. Qed.
Print Assumptions C09_no_abort.

(* the result is a probability distribution with full support *)
Theorem C09_distribution : forall eps t rs p, 0 < eps -> rs <> [] ->
  policy_vector_Q eps t rs = Some p ->
  Forall (fun x => 0 < x /\ x <= 1) p /\ fold_left Qplus p 0 == 1.
Proof. exact C09_Policy.distribution. Qed.
Print Assumptions C09_distribution.

(* entry a is max(R_a / max(t,1), eps) / sum_b max(R_b / max(t,1), eps) *)
Theorem C09_formula : forall eps t rs p a, 0 < eps ->
  policy_vector_Q eps t rs = Some p -> (a < length rs)%nat ->
  nth a p 0 == floored eps t (nth a rs 0) / qsum (floored_vec eps t rs).
Proof. exact C09_Policy.formula. Qed.
Print Assumptions C09_formula.

(* the same, as a Leibniz equality of vectors *)
Theorem C09_formula_vec : forall eps t rs p, 0 < eps ->
  policy_vector_Q eps t rs = Some p ->
  p = map (fun r => floored eps t r / qsum (floored_vec eps t rs)) rs.
Proof. exact C09_Policy.formula_vec. Qed.
Print Assumptions C09_formula_vec.

(* no cumulated regret exceeds the floor: the uniform strategy *)
Theorem C09_uniform : forall eps t rs p a, 0 < eps ->
  (forall r, In r rs -> cum_regret t r <= eps) ->
  policy_vector_Q eps t rs = Some p -> (a < length rs)%nat ->
  nth a p 0 == 1 # Pos.of_nat (length rs).
Proof. exact C09_Policy.uniform. Qed.
Print Assumptions C09_uniform.

(* in particular when no regret is positive; this is regret_matching's uniform case *)
Theorem C09_uniform_no_positive : forall eps t rs p a, 0 < eps ->
  (forall r, In r rs -> r <= 0) ->
  policy_vector_Q eps t rs = Some p -> (a < length rs)%nat ->
  nth a p 0 == 1 # Pos.of_nat (length rs) /\ nth a p 0 == nth a (regret_matching rs) 0.
Proof. exact C09_Policy.uniform_no_positive. Qed.
Print Assumptions C09_uniform_no_positive.

(* x_a <= c_a <= x_a + eps and X <= C <= X + n * eps
   (c = floored values, x = positive parts of the cumulated regrets, C, X their sums) *)
Theorem C09_floor_bounds : forall eps t rs, 0 <= eps ->
  (forall r, qpos (cum_regret t r) <= floored eps t r /\
             floored eps t r <= qpos (cum_regret t r) + eps) /\
  qsum (pos_vec t rs) <= qsum (floored_vec eps t rs) /\
  qsum (floored_vec eps t rs) <= qsum (pos_vec t rs) + qlen rs * eps.
Proof. exact C09_Policy.floor_bounds. Qed.
Print Assumptions C09_floor_bounds.

(* | p_a - x_a / X | <= n * eps / X  when X = sum of positive parts > 0 *)
Theorem C09_proportional : forall eps t rs p a, 0 < eps ->
  0 < qsum (pos_vec t rs) ->
  policy_vector_Q eps t rs = Some p -> (a < length rs)%nat ->
  Qabs (nth a p 0 - qpos (cum_regret t (nth a rs 0)) / qsum (pos_vec t rs))
    <= qlen rs * eps / qsum (pos_vec t rs).
Proof. exact C09_Policy.proportional. Qed.
Print Assumptions C09_proportional.

(* x_a / X is the textbook regret-matching entry (the epoch normalisation cancels) *)
Theorem C09_regret_matching_nth : forall t rs a,
  (exists r, In r rs /\ 0 < r) -> (a < length rs)%nat ->
  nth a (regret_matching rs) 0 == qpos (cum_regret t (nth a rs 0)) / qsum (pos_vec t rs).
Proof. exact C09_Policy.regret_matching_nth. Qed.
Print Assumptions C09_regret_matching_nth.

(* hence the strategy is regret matching up to n * eps / X *)
Theorem C09_close_to_regret_matching : forall eps t rs p a, 0 < eps ->
  (exists r, In r rs /\ 0 < r) ->
  policy_vector_Q eps t rs = Some p -> (a < length rs)%nat ->
  Qabs (nth a p 0 - nth a (regret_matching rs) 0) <= qlen rs * eps / qsum (pos_vec t rs).
Proof. exact C09_Policy.close_to_regret_matching. Qed.
Print Assumptions C09_close_to_regret_matching.

(* limit form eps = 0: exactly regret_matching when some regret is positive *)
Theorem C09_limit_regret_matching : forall t rs, (exists r, In r rs /\ 0 < r) ->
  exists p, policy_vector_Q 0 t rs = Some p /\ length p = length rs /\
    forall a, (a < length rs)%nat -> nth a p 0 == nth a (regret_matching rs) 0.
Proof. exact C09_Policy.limit_regret_matching. Qed.
Print Assumptions C09_limit_regret_matching.

(* the epoch normalisation cancels in the unfloored ratios (any positive divisors) *)
Theorem C09_scale_invariant : forall d1 d2 r rs, 0 < d1 -> 0 < d2 ->
  (r / d1) / qsum (map (fun b => b / d1) rs) == (r / d2) / qsum (map (fun b => b / d2) rs).
Proof. exact C09_Policy.scale_invariant. Qed.
Print Assumptions C09_scale_invariant.

Theorem C09_scale_invariant_pos : forall d1 d2 r rs, 0 < d1 -> 0 < d2 ->
  qpos (r / d1) / qsum (map (fun b => qpos (b / d1)) rs) ==
  qpos (r / d2) / qsum (map (fun b => qpos (b / d2)) rs).
Proof. exact C09_Policy.scale_invariant_pos. Qed.
Print Assumptions C09_scale_invariant_pos.

Theorem C09_scale_invariant_epochs : forall t1 t2 r rs,
  cum_regret t1 r / qsum (map (cum_regret t1) rs) ==
  cum_regret t2 r / qsum (map (cum_regret t2) rs).
Proof. exact C09_Policy.scale_invariant_epochs. Qed.
Print Assumptions C09_scale_invariant_epochs.

(* policy_vector_with is the model with the flag as a parameter *)
Theorem C09_policy_vector_with_generated :
  policy_vector_with_Q REGRET_DIVISOR_AT_LEAST_ONE = policy_vector_Q.
Proof. exact C09_Policy.policy_vector_with_Q_generated. Qed.
Print Assumptions C09_policy_vector_with_generated.

(* the original divisor aborts on a fresh profile as soon as one regret is positive *)
Theorem C09_unfixed_aborts : forall eps rs, (exists r, In r rs /\ 0 < r) ->
  policy_vector_with_Q false eps 0 rs = None.
Proof. exact C09_Policy.unfixed_aborts. Qed.
Print Assumptions C09_unfixed_aborts.

(* concrete witness: [5; -1] at t = 0 aborts without the fix; the model returns a distribution *)
Theorem C09_needs_divisor_fix :
  (forall eps, policy_vector_with_Q false eps 0 [5; -1] = None) /\
  policy_vector_Q (1 # 1000) 0 [5; -1] = Some [5000 # 5001; 1000 # 5001000] /\
  (exists p, policy_vector_Q (1 # 1000) 0 [5; -1] = Some p /\
     Forall (fun x => 0 < x /\ x <= 1) p /\ fold_left Qplus p 0 == 1).
Proof.
  exact (conj C09_Examples.ex_unfixed_aborts
           (conj C09_Examples.ex_fixed_value C09_Examples.ex_fixed_is_distribution)).
Qed.
Print Assumptions C09_needs_divisor_fix.

(* the repair changes nothing for t >= 1, nor at t = 0 when no regret is positive *)
Theorem C09_fix_conservative : forall eps t rs, (1 <= t)%Z ->
  policy_vector_with_Q false eps t rs = policy_vector_Q eps t rs.
Proof. exact C09_Policy.fix_conservative. Qed.
Print Assumptions C09_fix_conservative.

Theorem C09_fix_conservative_t0 : forall eps rs a, 0 < eps -> (forall r, In r rs -> r <= 0) ->
  (a < length rs)%nat ->
  exists p q, policy_vector_with_Q false eps 0 rs = Some p /\ policy_vector_Q eps 0 rs = Some q /\
    nth a p 0 == nth a q 0.
Proof. exact C09_Policy.fix_conservative_t0. Qed.
Print Assumptions C09_fix_conservative_t0.

(* the floor applied to the recorded regrets (regret_vector: r.max(REGRET_MIN)) *)
Theorem C09_clamp : forall lo r, lo <= clamp lo r /\ (lo <= r -> clamp lo r == r).
Proof. exact (fun lo r => conj (C09_Policy.clamp_ge lo r) (C09_Policy.clamp_id lo r)). Qed.
Print Assumptions C09_clamp.
