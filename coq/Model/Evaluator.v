(* Model/Evaluator.v -- executable model (L0, over N) of the bitwise hand evaluator (property C01).
   Mirrors src/cards/evaluator.rs, src/cards/hand.rs (u16::from(Hand), Hand::of),
   src/cards/rank.rs (Rank::from(u16), Rank::lo), src/cards/strength.rs, src/cards/ranking.rs
   (derive(Ord): variant order from Gen, then fields), src/cards/kicks.rs.
   The deck configuration selects mask, wheel, lowest straight and enum order from coq/Gen.
   No proofs in this file. *)
From Coq Require Import NArith ZArith List Bool.
From RP Require Import Base.Bits Gen.GenCards Model.Codec.
Import ListNotations.
Open Scope N_scope.

Definition wheel (d : deck) : N := match d with Standard => WHEEL_STD | Short => WHEEL_SHORT end.
Definition lowest_straight (d : deck) : N :=
  match d with Standard => LOWEST_STRAIGHT_STD | Short => LOWEST_STRAIGHT_SHORT end.
Definition ranking_order (d : deck) : list category :=
  match d with Standard => RANKING_ORDER_STD | Short => RANKING_ORDER_SHORT end.

(* u16::from(Hand): shred the 4 suit bits of every rank into one rank bit *)
Definition rank_mask (h : N) : N :=
  let x := N.lor h (N.shiftr h 1) in
  let x := N.lor x (N.shiftr x 2) in
  let x := N.land x 300239975158033 (* 0x1111111111111 *) in
  fold_left (fun y i => N.lor y (N.land (N.shiftr x (3 * i)) (N.shiftl 1 i))) (nseq 13 0) 0.

(* Hand::of(suit) = Hand::from(this & mask) -- Hand::from masks with the deck mask *)
Definition suit_mask (s : N) : N := nth (N.to_nat s) SUIT_MASKS 0.
Definition hand_of_suit (d : deck) (h s : N) : N := hand_of_u64 d (N.land h (suit_mask s)).

(* Rank::from(u16) *)
Definition rank_of_mask (n : N) : option N := msb (N.land n RANK_MASK).

Definition find_rank_of_straight (d : deck) (hand : N) : option N :=
  let ranks := rank_mask hand in
  let b := ranks in
  let b := N.land b (u16 (N.shiftl b 1)) in
  let b := N.land b (u16 (N.shiftl b 1)) in
  let b := N.land b (u16 (N.shiftl b 1)) in
  let b := N.land b (u16 (N.shiftl b 1)) in
  if 0 <? b then rank_of_mask b
  else if wheel d =? N.land (wheel d) ranks then Some (lowest_straight d)
  else None.

Definition find_suit_of_flush (h : N) : option N :=
  position (fun s => 5 <=? popcount64 (N.land h (suit_mask s))) [0; 1; 2; 3].

(* the loop runs high = 0xF << 48, ..., 0xF << 0 (and once more with high = 0, which never matches) *)
Fixpoint n_oak_loop (fuel : nat) (r : N) (h n : N) (skip : option N) : option N :=
  match fuel with
  | O => None
  | S k =>
      let high := N.shiftl 15 (4 * r) in
      let skipped := match skip with Some s => negb (N.land high (N.shiftl 15 (4 * s)) =? 0) | None => false end in
      if negb skipped && (n <=? popcount64 (N.land high h)) then Some r
      else if r =? 0 then None else n_oak_loop k (r - 1) h n skip
  end.
Definition find_rank_of_n_oak_skip (h n : N) (skip : option N) : option N := n_oak_loop 13 12 h n skip.
Definition find_rank_of_n_oak (h n : N) : option N := find_rank_of_n_oak_skip h n None.

(* Ranking values: category + up to two rank fields *)
Record ranking := mkRanking { rcat : category; r1 : N; r2 : N }.

Definition find_flush (d : deck) (h : N) : option ranking :=
  match find_suit_of_flush h with
  | None => None
  | Some s =>
      match find_rank_of_straight d (hand_of_suit d h s) with
      | Some r => Some (mkRanking StraightFlush r 0)
      | None => match rank_of_mask (rank_mask (hand_of_suit d h s)) with
                | Some r => Some (mkRanking Flush r 0) | None => None end
      end
  end.
Definition find_4_oak (h : N) := option_map (fun r => mkRanking FourOAK r 0) (find_rank_of_n_oak h 4).
Definition find_3_oak (h : N) := option_map (fun r => mkRanking ThreeOAK r 0) (find_rank_of_n_oak h 3).
Definition find_2_oak (h : N) := option_map (fun r => mkRanking OnePair r 0) (find_rank_of_n_oak h 2).
Definition find_1_oak (h : N) := option_map (fun r => mkRanking HighCard r 0) (find_rank_of_n_oak h 1).
Definition find_3_oak_2_oak (h : N) : option ranking :=
  match find_rank_of_n_oak h 3 with
  | Some t => option_map (fun p => mkRanking FullHouse t p) (find_rank_of_n_oak_skip h 2 (Some t))
  | None => None
  end.
Definition find_2_oak_2_oak (h : N) : option ranking :=
  match find_rank_of_n_oak h 2 with
  | Some hi => match find_rank_of_n_oak_skip h 2 (Some hi) with
               | Some lo => Some (mkRanking TwoPair hi lo)
               | None => Some (mkRanking OnePair hi 0)
               end
  | None => None
  end.
Definition find_straight (d : deck) (h : N) := option_map (fun r => mkRanking Straight r 0) (find_rank_of_straight d h).

Definition eval_step_run (d : deck) (h : N) (s : eval_step) : option ranking :=
  match s with
  | SFlush => find_flush d h | S4 => find_4_oak h | S32 => find_3_oak_2_oak h
  | SStraight => find_straight d h | S3 => find_3_oak h | S22 => find_2_oak_2_oak h
  | S2 => find_2_oak h | S1 => find_1_oak h
  end.
(* None.or_else(..).or_else(..) ... .expect(..): None = panic (empty hand) *)
Definition find_ranking (d : deck) (h : N) : option ranking :=
  fold_left (fun acc s => match acc with Some r => Some r | None => eval_step_run d h s end) EVAL_CHAIN None.

(* clear lowest set bits while more than n remain *)
Fixpoint keep_top (fuel : nat) (n : N) (x : N) : N :=
  match fuel with
  | O => x
  | S k => if n <? popcount64 x then keep_top k n (N.land x (x - 1)) else x
  end.
Definition find_kickers (h : N) (v : ranking) : N :=
  match N_KICKERS (rcat v) with
  | 0 => 0
  | n =>
      let hand := rank_mask h in
      let excl := match rcat v with
                  | TwoPair => N.lor (N.shiftl 1 (r1 v)) (N.shiftl 1 (r2 v))
                  | _ => N.shiftl 1 (r1 v) end in
      keep_top 16 n (N.land hand (N.lxor 65535 excl))
  end.
Definition find_flush_kickers (d : deck) (h : N) : N :=
  match find_suit_of_flush h with
  | None => 0
  | Some s =>
      let bits := rank_mask (hand_of_suit d h s) in
      match rank_of_mask bits with
      | Some top => keep_top 16 4 (N.land bits (N.lxor 65535 (N.shiftl 1 top)))
      | None => 0
      end
  end.

Record strength := mkStrength { svalue : ranking; skicks : N }.
(* Strength::from(Hand); Hand::from(u64) masks first *)
Definition strength_of (d : deck) (h : N) : option strength :=
  match find_ranking d h with
  | None => None
  | Some v =>
      let k := match rcat v with
               | Flush => if FLUSH_HAS_KICKERS then find_flush_kickers d h else find_kickers h v
               | _ => find_kickers h v end in
      Some (mkStrength v k)
  end.

(* derive(Ord): variant index, then fields in order; then kicks *)
Definition category_eqb (a b : category) : bool :=
  match a, b with
  | HighCard, HighCard | OnePair, OnePair | TwoPair, TwoPair | ThreeOAK, ThreeOAK | Straight, Straight
  | FullHouse, FullHouse | Flush, Flush | FourOAK, FourOAK | StraightFlush, StraightFlush | RMAX, RMAX => true
  | _, _ => false
  end.
Definition category_index (d : deck) (c : category) : N :=
  match position (category_eqb c) (ranking_order d) with Some i => i | None => 99 end.
Definition lex (a b : comparison) : comparison := match a with Eq => b | _ => a end.
Definition cmp_ranking (d : deck) (a b : ranking) : comparison :=
  lex (N.compare (category_index d (rcat a)) (category_index d (rcat b)))
      (lex (N.compare (r1 a) (r1 b)) (N.compare (r2 a) (r2 b))).
Definition cmp_strength (d : deck) (a b : strength) : comparison :=
  lex (cmp_ranking d (svalue a) (svalue b)) (N.compare (skicks a) (skicks b)).
