(* Model/BucketF32.v -- the binary32 computation of the river equity bucket,
     Observation::equity      (src/cards/observation.rs):
        equity = if sum == 0 { 0.5 } else { won as f32 / sum as f32 }
     Abstraction::quantize    (src/clustering/abstraction.rs):
        bucket = (equity * (N as f32)).round() as usize,   N = KMEANS_EQTY_CLUSTER_COUNT - 1
   modelled bit-exactly with Flocq (IEEE 754 binary32, round to nearest even; f32::round rounds halves
   away from zero; `as usize` saturates, NaN -> 0), for the statement that on the reachable range of
   counts it equals the exact integer "nearest percent, halves up" used as oracle by the differential
   harness.  Definitions only; proofs in Proofs/C07_BucketF32*.v.  Not extracted. *)
From Coq Require Import ZArith NArith List Bool.
From Flocq Require Import IEEE754.BinarySingleNaN IEEE754.Bits Core.Zaux.
From RP Require Import Gen.GenLib Model.BetF32.
Import ListNotations.
Open Scope Z_scope.

(* N of Abstraction: the index of the 100% bucket *)
Definition NN : Z := KMEANS_EQTY_CLUSTER_COUNT - 1.
(* the literal 0.5 *)
Definition half : f32 := binary_normalize prec emax Hprec Hmax mode_NE 1 (-1) false.
Definition USIZE_MAX : Z := 2 ^ 64 - 1.
(* `x.round() as usize`: nearest integer, halves away from zero, then the saturating cast
   (negative -> 0, NaN -> 0, too large / +inf -> usize::MAX).  For a finite non-negative
   x = m * 2^e this is floor (x + 1/2), computed exactly on (m, e):
     e >= 0 : the integer m * 2^e itself;
     e = -p : floor ((2 m + 2^p) / 2^(p+1)). *)
Definition round_half_away_to_Z (x : f32) : Z :=
  match x with
  | B754_finite s m e _ =>
      if s then 0 else
      let z := match e with
               | Z0 => Zpos m
               | Zpos p => Zpos m * 2 ^ Zpos p
               | Zneg p => (2 * Zpos m + 2 ^ Zpos p) / 2 ^ (Zpos p + 1)
               end in
      Z.min USIZE_MAX z
  | B754_infinity s => if s then 0 else USIZE_MAX
  | _ => 0
  end.
(* the implementation's bucket from the two counts *)
Definition bucket32 (won sum : Z) : Z :=
  if sum =? 0 then round_half_away_to_Z (fmul half (of_Z NN))
  else round_half_away_to_Z (fmul (fdiv (of_Z won) (of_Z sum)) (of_Z NN)).
(* the exact integer: NN * won / sum rounded to nearest, exact halves up; NN / 2 likewise when sum = 0 *)
Definition bucket_exact (won sum : Z) : Z :=
  if sum =? 0 then (NN + 1) / 2 else (2 * NN * won + sum) / (2 * sum).
(* NN * won / sum lies exactly half way between two integers *)
Definition is_tie (won sum : Z) : bool :=
  negb (sum =? 0) && ((2 * NN * won + sum) mod (2 * sum) =? 0).
(* FINDING: on the reachable range (sum <= 990, NN = 100) bucket32 and bucket_exact differ exactly at
   the ties whose ratio won / sum is one of these four: there the binary32 product is just below the
   half (52.499996, 26.499998, 29.499998, 58.499996) and `.round()` goes DOWN, one below bucket_exact.
   (Reproduced with rustc on the same expression.) *)
Definition tie_down_ratios : list (Z * Z) := [(21, 40); (53, 200); (59, 200); (117, 200)].
Definition rounds_down_tie (won sum : Z) : bool :=
  negb (sum =? 0) && existsb (fun pq => won * snd pq =? fst pq * sum) tie_down_ratios.
(* as an instance of the `bucket_of` parameter of Model/Equity.turn_histogram and the C07 theorems *)
Definition bucket_of32 : N * N -> N :=
  fun '(w, n) => Z.to_N (bucket32 (Z.of_N w) (Z.of_N n)).
