(* Model/DiscountR.v -- the regret discount factor itself, over the real numbers (property C19).
   Model/Discount.v takes the factors applied by Profile::add_regret as an input list; this file
   models the function that PRODUCES them:

     Discount::regret(t, regret)        src/mccfr/discount.rs
       if t % period != 0 { 1 }
       else if regret > 0 { x = (t / period)^alpha ; x / (x + 1) }
       else if regret < 0 { x = (t / period)^omega ; x / (x + 1) }
       else { 1 }
     Profile::add_regret                src/mccfr/profile.rs
       discount = match phase { Discount => discount.regret(t, regret), Explore | Prune => 1 }
       decision.add_regret(discount, regret)            regret_acc * discount + regret
     Phase::from(epochs)                src/mccfr/phase.rs
       Discount iff epochs < CFR_DISCOUNT_PHASE        (Model/Discount.in_discount_phase)

   f32::powf is modelled by the real power function: x^y = Rpower x y = exp (y * ln x) for x > 0 and
   0^y = 0 for y > 0 (Rust: 0f32.powf(1.5) = 0; Coq's Rpower 0 y would be 1 because ln 0 = 0 there,
   hence the explicit case).  Rounding of the binary32 operations is not modelled here.
   period, alpha, omega, CFR_DISCOUNT_PHASE are the generated constants of Gen/GenDiscount.v and
   Gen/GenLib.v.  Definitions only.  Not extracted (real numbers). *)
From Coq Require Import ZArith QArith Qreals Reals List.
From RP Require Import Gen.GenLib Gen.GenDiscount Model.Discount.
Import ListNotations.
Local Open Scope R_scope.

(* f32::powf on a non-negative base with a positive exponent, over the reals *)
Definition powfR (x y : R) : R := if Req_EM_T x 0 then 0 else Rpower x y.

Definition alphaR : R := Q2R DISCOUNT_ALPHA.
Definition omegaR : R := Q2R DISCOUNT_OMEGA.
(* t as f32 / period as f32 *)
Definition periodsR (t : Z) : R := IZR t / IZR DISCOUNT_PERIOD.
Definition squash (x : R) : R := x / (x + 1).

(* Discount::regret(t, r) *)
Definition discount_regretR (t : Z) (r : R) : R :=
  if negb (t mod DISCOUNT_PERIOD =? 0)%Z then 1
  else if Rlt_dec 0 r then squash (powfR (periodsR t) alphaR)
  else if Rlt_dec r 0 then squash (powfR (periodsR t) omegaR)
  else 1.

(* the factor Profile::add_regret applies at epoch t to an action whose new regret is r *)
Definition regret_factor (t : Z) (r : R) : R :=
  if in_discount_phase t then discount_regretR t r else 1.

(* ---------- literal transcription over R of the run of Model/Discount.v ---------- *)
Definition accumulateR (acc d v : R) : R := acc * d + v.                  (* Memory::add_regret *)
Fixpoint regret_runR (acc : R) (drs : list (R * R)) : R :=
  match drs with [] => acc | (d, r) :: rest => regret_runR (accumulateR acc d r) rest end.
Fixpoint prodR (l : list R) : R := match l with [] => 1 | x :: r => x * prodR r end.
Fixpoint sum_regretR (drs : list (R * R)) : R :=
  match drs with [] => 0 | (d, r) :: rest => r * prodR (map fst rest) + sum_regretR rest end.

(* the (factor, regret) pairs the code really feeds to Memory::add_regret:
   - at the given epochs, trs = [(t_0, r_0); (t_1, r_1); ...]  (an information set need not be
     visited at every epoch)
   - at the consecutive epochs t0, t0 + 1, ... *)
Definition concrete_pairs (trs : list (Z * R)) : list (R * R) :=
  map (fun tr => (regret_factor (fst tr) (snd tr), snd tr)) trs.
Fixpoint from_epoch (t0 : Z) (rs : list R) : list (Z * R) :=
  match rs with [] => [] | r :: rest => (t0, r) :: from_epoch (t0 + 1) rest end.
Definition concrete_run (acc : R) (trs : list (Z * R)) : R := regret_runR acc (concrete_pairs trs).
