(* Model/Codec.v -- executable models of the integer codecs (property C15).
   Mirrors, expression by expression:
     src/cards/card.rs        Card <-> u8, Card <-> u32, Card -> u64
     src/cards/rank.rs        Rank <-> u8 / u16
     src/cards/hand.rs        Hand <-> u64, Hand -> Vec<Card>, Vec<Card> -> Hand
     src/cards/observation.rs Observation <-> i64
     src/cards/street.rs      Street::from(i64), Street::from(usize)
     src/gameplay/action.rs   Action <-> u32
     src/mccfr/edge.rs        Edge <-> u8, Edge <-> u64
     src/mccfr/path.rs        Path <-> Vec<Edge>
     src/clustering/abstraction.rs  (Street, index) -> Abstraction <-> u64, street(), index()
     src/clustering/pair.rs   Pair
   A Rust panic (assert!, unreachable!, arithmetic overflow in debug builds) is [None].
   No proofs in this file. *)
From Coq Require Import NArith ZArith List Bool.
From RP Require Import Base.Bits Gen.GenLib Gen.GenCards Gen.GenAbstract Gen.GenStreet.
Import ListNotations.
Open Scope N_scope.

Inductive deck := Standard | Short.
Definition hand_mask (d : deck) : N :=
  match d with Standard => HAND_MASK_STD | Short => HAND_MASK_SHORT end.

(* ---------- Card ---------- *)
Definition card_rank (c : N) : N := c / 4.
Definition card_suit (c : N) : N := c mod 4.
Definition card_of_rank_suit (r s : N) : N := r * 4 + s.
(* Rank::from(u8) panics above 12 *)
Definition rank_of_u8 (n : N) : option N := if n <=? 12 then Some n else None.
(* Rank::from(u16): index of the msb of n & 0x1FFF; underflows (panic) on zero *)
Definition rank_of_u16 (n : N) : option N := msb (N.land n 8191).
Definition rank_to_u16 (r : N) : N := N.shiftl 1 r.
(* Card -> u32 : rank bit | suit bit; card.rank() = Rank::from(c/4) panics if c/4 > 12 *)
Definition card_to_u32 (c : N) : option N :=
  match rank_of_u8 (card_rank c) with
  | Some r => Some (N.lor (rank_to_u16 r) (N.shiftl (N.shiftl 1 13) (card_suit c)))
  | None => None
  end.
(* u32 -> Card : Suit::from(tz(n >> 13)) is unreachable!() above 3 (tz of 0 is 32) *)
Definition tz32 (x : N) : N := match bits_from 32 0 x with [] => 32 | i :: _ => i end.
Definition card_of_u32 (n : N) : option N :=
  match rank_of_u16 (u16 n) with
  | Some r => let s := tz32 (N.shiftr n 13) in
              if s <=? 3 then Some (card_of_rank_suit r s) else None
  | None => None
  end.
Definition card_to_u64 (c : N) : option N := if c <? 64 then Some (N.shiftl 1 c) else None.

(* ---------- Hand ---------- *)
Definition hand_of_u64 (d : deck) (n : N) : N := N.land n (hand_mask d).
Definition hand_to_u64 (h : N) : N := h.
(* Vec<Card>::from(Hand) and the Hand iterator both list cards from the lowest bit up *)
Definition hand_cards (h : N) : list N := set_bits64 h.
(* Hand::from(Vec<Card>): OR of 1 << card (no mask, no disjointness check) *)
Definition hand_of_cards (cs : list N) : option N :=
  fold_left (fun acc c => match acc, card_to_u64 c with
                          | Some a, Some b => Some (N.lor a b) | _, _ => None end) cs (Some 0).
(* Hand::add asserts disjointness *)
Definition hand_add (a b : N) : option N := if N.land a b =? 0 then Some (N.lor a b) else None.
Definition hand_size (h : N) : N := popcount64 h.

(* ---------- Observation <-> i64 ---------- *)
Record obs := mkObs { pocket : N; public : N }.
Definition obs_to_i64 (o : obs) : Z :=
  i64_of_u64 (fold_left (fun acc c => u64 (N.lor (N.shiftl acc 8) (1 + c)))
                        (hand_cards (public o) ++ hand_cards (pocket o)) 0).
(* bytes of an i64 from the least significant, while the arithmetically shifted rest is > 0 *)
Fixpoint obs_bytes (n : nat) (i : Z) (bits : Z) : list N :=
  match n with
  | O => []
  | S k => let rest := Z.shiftr bits (i * 8) in
           if (0 <? rest)%Z then Z.to_N (rest mod 256)%Z :: obs_bytes k (i + 1)%Z bits else []
  end.
Definition obs_from_parts (pk pb : N) : option obs :=
  if (hand_size pk =? 2) && (hand_size pb <=? 5) then Some (mkObs pk pb) else None.
Fixpoint obs_fold (bytes : list N) (i : nat) (pk pb : N) : option obs :=
  match bytes with
  | [] => obs_from_parts pk pb
  | b :: rest =>
      if b =? 0 then None (* u8 underflow *) else
      match card_to_u64 (b - 1) with
      | None => None
      | Some h =>
          if Nat.ltb i 2
          then match hand_add pk h with Some pk' => obs_fold rest (S i) pk' pb | None => None end
          else match hand_add pb h with Some pb' => obs_fold rest (S i) pk pb' | None => None end
      end
  end.
Definition obs_of_i64 (bits : Z) : option obs := obs_fold (obs_bytes 8 0 bits) 0 0 0.

(* ---------- Street ---------- *)
Definition street_of_size (n : Z) : option Z :=
  match find (fun p => Z.eqb (fst p) n) STREET_OF_SIZE with Some p => Some (snd p) | None => None end.
Definition street_of_obs_code (bits : Z) : option Z :=
  street_of_size (Z.of_nat (length (skipn 2 (obs_bytes 8 0 bits)))).
Definition obs_street (o : obs) : option Z := street_of_size (Z.of_N (hand_size (public o))).

(* ---------- Action <-> u32 ---------- *)
Inductive action :=
| Draw (h : N) | Fold | Call (c : Z) | Check | Raise (c : Z) | Shove (c : Z) | Blind (c : Z).
Definition chips_u32 (c : Z) : N := (* (bets as u32): sign extension of an i16 *)
  Z.to_N (c mod 4294967296)%Z.
Definition action_to_u32 (a : action) : N :=
  match a with
  | Fold => ACTION_U32_ENC AFold
  | Check => ACTION_U32_ENC ACheck
  | Call c => N.lor (ACTION_U32_ENC ACall) (u32 (N.shiftl (chips_u32 c) 8))
  | Raise c => N.lor (ACTION_U32_ENC ARaise) (u32 (N.shiftl (chips_u32 c) 8))
  | Shove c => N.lor (ACTION_U32_ENC AShove) (u32 (N.shiftl (chips_u32 c) 8))
  | Blind c => N.lor (ACTION_U32_ENC ABlind) (u32 (N.shiftl (chips_u32 c) 8))
  | Draw h =>
      let cs := firstn 3 (hand_cards h) in
      let packed := fold_left (fun acc ic => N.lor acc (u32 (N.shiftl (snd ic + 1) (fst ic * 8))))
                              (combine [0; 1; 2] cs) 0 in
      N.lor (ACTION_U32_ENC ADraw) (u32 (N.shiftl packed 8))
  end.
Definition action_of_u32 (v : N) : option action :=
  let kind := N.land v ACTION_MASK in
  let data := N.shiftr v 8 in
  let bets := i16_of_bits data in
  if kind =? ACTION_U32_DEC AFold then Some Fold
  else if kind =? ACTION_U32_DEC ACheck then Some Check
  else if kind =? ACTION_U32_DEC ACall then Some (Call bets)
  else if kind =? ACTION_U32_DEC ARaise then Some (Raise bets)
  else if kind =? ACTION_U32_DEC AShove then Some (Shove bets)
  else if kind =? ACTION_U32_DEC ABlind then Some (Blind bets)
  else if kind =? ACTION_U32_DEC ADraw then
    let xs := filter (fun x => 0 <? x) (map (fun i => N.land (N.shiftr data (8 * i)) ACTION_MASK) [0; 1; 2]) in
    match fold_left (fun acc x => match acc, card_to_u64 (x - 1) with
                                  | Some a, Some b => hand_add a b | _, _ => None end) xs (Some 0) with
    | Some h => Some (Draw h)
    | None => None
    end
  else None.

(* ---------- Edge <-> u8 / u64 ---------- *)
Inductive edge := EDraw | EFold | ECheck | ECall | ERaise (num den : Z) | EShove.
Definition edge_kind_of (e : edge) : option edge_kind :=
  match e with EDraw => Some KDraw | EFold => Some KFold | ECheck => Some KCheck
             | ECall => Some KCall | EShove => Some KShove | ERaise _ _ => None end.
Fixpoint position {A} (f : A -> bool) (l : list A) : option N :=
  match l with
  | [] => None
  | x :: r => if f x then Some 0 else match position f r with Some i => Some (i + 1) | None => None end
  end.
Definition odds_eqb (a b : Z * Z) : bool := Z.eqb (fst a) (fst b) && Z.eqb (snd a) (snd b).
Definition edge_to_u8 (e : edge) : option N :=
  match e with
  | ERaise n d => match position (odds_eqb (n, d)) GRID with
                  | Some i => Some (u8 (EDGE_U8_RAISE_BASE_ENC + i)) | None => None end
  | EDraw => Some (EDGE_U8_ENC KDraw) | EFold => Some (EDGE_U8_ENC KFold)
  | ECheck => Some (EDGE_U8_ENC KCheck) | ECall => Some (EDGE_U8_ENC KCall)
  | EShove => Some (EDGE_U8_ENC KShove)
  end.
Definition edge_of_u8 (v : N) : option edge :=
  if v =? EDGE_U8_DEC KDraw then Some EDraw
  else if v =? EDGE_U8_DEC KFold then Some EFold
  else if v =? EDGE_U8_DEC KCheck then Some ECheck
  else if v =? EDGE_U8_DEC KCall then Some ECall
  else if v =? EDGE_U8_DEC KShove then Some EShove
  else if (EDGE_U8_RAISE_LO_DEC <=? v) && (v <=? EDGE_U8_RAISE_HI_DEC) then
    (* i as usize - base: underflow panics; index out of bounds panics *)
    if v <? EDGE_U8_RAISE_BASE_DEC then None else
    match nth_error GRID (N.to_nat (v - EDGE_U8_RAISE_BASE_DEC)) with
    | Some (n, d) => Some (ERaise n d) | None => None end
  else None.
Definition edge_to_u64 (e : edge) : N :=
  match e with
  | EDraw => EDGE_U64_ENC KDraw | EFold => EDGE_U64_ENC KFold | ECheck => EDGE_U64_ENC KCheck
  | ECall => EDGE_U64_ENC KCall | EShove => EDGE_U64_ENC KShove
  | ERaise n d =>
      let '(tag, sn, sd) := EDGE_U64_RAISE_ENC in
      (* (num as u64): sign extension of an i16 *)
      let ext z := Z.to_N (z mod 18446744073709551616)%Z in
      N.lor (N.lor tag (u64 (N.shiftl (ext n) sn))) (u64 (N.shiftl (ext d) sd))
  end.
Definition edge_of_u64 (v : N) : option edge :=
  let t := N.land v EDGE_U64_TAGMASK in
  let '(rtag, sn, mn, sd, md) := EDGE_U64_RAISE_DEC in
  if t =? EDGE_U64_DEC KDraw then Some EDraw
  else if t =? EDGE_U64_DEC KFold then Some EFold
  else if t =? EDGE_U64_DEC KCheck then Some ECheck
  else if t =? EDGE_U64_DEC KCall then Some ECall
  else if t =? rtag then Some (ERaise (i16_of_bits (N.land (N.shiftr v sn) mn)) (i16_of_bits (N.land (N.shiftr v sd) md)))
  else if t =? EDGE_U64_DEC KShove then Some EShove
  else None.

(* ---------- Path <-> Vec<Edge> ---------- *)
Definition opt_map_all {A B} (f : A -> option B) (l : list A) : option (list B) :=
  fold_right (fun x acc => match f x, acc with Some y, Some r => Some (y :: r) | _, _ => None end) (Some []) l.
Fixpoint nseq (n : nat) (i : N) : list N := match n with O => [] | S k => i :: nseq k (i + 1) end.
Definition path_pack (es : list edge) : option N :=
  let '(maxlen, width) := PATH_PACK in
  if N.of_nat (length es) <=? maxlen then
    match opt_map_all edge_to_u8 es with
    | Some bytes =>
        (* byte << (i * 4) on u64: shifting by >= 64 panics in debug; cannot happen for i < 16 *)
        Some (fold_left (fun acc ib => N.lor acc (u64 (N.shiftl (snd ib) (fst ib * width))))
                        (combine (nseq (length bytes) 0) bytes) 0)
    | None => None
    end
  else None.
Fixpoint take_while_nz (l : list N) : list N :=
  match l with [] => [] | x :: r => if x =? 0 then [] else x :: take_while_nz r end.
Definition path_unpack (p : N) : option (list edge) :=
  let '(count, width, m) := PATH_UNPACK in
  opt_map_all edge_of_u8
    (take_while_nz (map (fun i => N.land m (N.shiftr p (i * width))) (nseq (N.to_nat count) 0))).

(* ---------- Abstraction ---------- *)
Inductive abs_variant := Percent | Learned | Preflop.
Record abstraction := mkAbs { avariant : abs_variant; abits : N }.
Definition count_ones64 := popcount64.
Definition count_zeros64 (x : N) : N := 64 - popcount64 x.
Definition abs_signature (street index : N) : N :=
  let bits := N.land ABS_L index in
  let bits := N.lor bits (u64 (N.shiftl street (count_ones64 ABS_L))) in
  let bits := u64 (bits * ABS_MUL) in
  N.land ABS_M bits.
Definition variant_of_street (street : N) : option abs_variant :=
  match street with 0 => Some Preflop | 1 => Some Learned | 2 => Some Learned | 3 => Some Percent | _ => None end.
Definition abs_make (street index : N) : option abstraction :=
  let bits := N.land ABS_L index in
  let bits := N.lor bits (N.land ABS_M (abs_signature street index)) in
  let bits := N.lor bits (N.land ABS_H (u64 (N.shiftl street (count_zeros64 ABS_H)))) in
  match variant_of_street street with Some v => Some (mkAbs v bits) | None => None end.
Definition abs_to_u64 (a : abstraction) : N := abits a.
Definition abs_tag (n : N) : N := N.shiftr (N.land ABS_H n) (count_zeros64 ABS_H).
Definition abs_of_u64 (n : N) : option abstraction :=
  match variant_of_street (u8 (abs_tag n)) with Some v => Some (mkAbs v n) | None => None end.
Definition abs_street (a : abstraction) : option N :=
  let t := abs_tag (abits a) in if t <=? 3 then Some t else None.
Definition abs_index (a : abstraction) : N := N.land ABS_L (abits a).
Definition abs_to_i64 (a : abstraction) : Z := i64_of_u64 (abs_to_u64 a).
Definition abs_of_i64 (z : Z) : option abstraction := abs_of_u64 (u64_of_i64 z).

(* number of buckets per street: Street::n_abstractions / Abstraction::all *)
Definition street_k (street : N) : N :=
  match street with
  | 0 => match nth_error N_ISOMORPHISMS_STD 0 with Some (Some z) => Z.to_N z | _ => 0 end
  | 1 => Z.to_N KMEANS_FLOP_CLUSTER_COUNT
  | 2 => Z.to_N KMEANS_TURN_CLUSTER_COUNT
  | _ => Z.to_N KMEANS_EQTY_CLUSTER_COUNT
  end.
Definition abs_all (street : N) : list N := (* codes of Abstraction::all(street) *)
  flat_map (fun i => match abs_make street i with Some a => [abits a] | None => [] end)
           (nseq (N.to_nat (street_k street)) 0).

(* ---------- Pair ---------- *)
Definition pair_key (a b : N) : N := N.lxor a b.
Fixpoint pairs_of (l : list N) : list N :=
  match l with [] => [] | x :: r => map (pair_key x) r ++ pairs_of r end.
Definition learned_pair_keys : list N := pairs_of (abs_all 1) ++ pairs_of (abs_all 2) ++ pairs_of (abs_all 3).
