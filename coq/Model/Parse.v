(* Model/Parse.v -- executable model of the text parsers and printers (property C16):
   TryFrom<&str> / Display of Rank, Suit, Card (src/cards/{rank,suit,card}.rs), Hand, Hole,
   Observation, Street, Abstraction (src/clustering/abstraction.rs), Action
   (src/gameplay/action.rs), Turn (src/gameplay/ply.rs).
   A string is a list of Unicode code points (N); byte-indexed operations (len, slicing,
   is_char_boundary) go through the UTF-8 length of each code point.  A parser returns
   POk v | PErr | PPanic.  The std string functions are modelled as follows and are part of the
   trusted base (validated on the harness alphabet): char::is_whitespace = the White_Space code
   points; to_uppercase / to_lowercase = ASCII case mapping plus the few non-ASCII code points whose
   mapping produces ASCII letters used by the grammar (dotless i, long s, Kelvin sign, ff-ligatures).
   No proofs in this file. *)
From Coq Require Import NArith ZArith List Bool.
From RP Require Import Base.Bits Gen.GenLib Gen.GenFixes Model.Codec.
Import ListNotations.
Open Scope N_scope.

Definition str := list N.
Inductive pres (A : Type) := POk (a : A) | PErr | PPanic.
Arguments POk {A}. Arguments PErr {A}. Arguments PPanic {A}.

Definition utf8_len (c : N) : N := if c <? 128 then 1 else if c <? 2048 then 2 else if c <? 65536 then 3 else 4.
Definition byte_len (s : str) : N := fold_left (fun a c => a + utf8_len c) s 0.
(* str::is_char_boundary(i) for 0 < i < len *)
Fixpoint is_boundary (s : str) (i : N) : bool :=
  match s with
  | [] => i =? 0
  | c :: r => if i =? 0 then true else if i <? utf8_len c then false else is_boundary r (i - utf8_len c)
  end.
Definition is_ws (c : N) : bool :=
  ((9 <=? c) && (c <=? 13)) || (c =? 32) || (c =? 133) || (c =? 160) || (c =? 5760)
  || ((8192 <=? c) && (c <=? 8202)) || (c =? 8232) || (c =? 8233) || (c =? 8239) || (c =? 8287) || (c =? 12288).
Fixpoint drop_ws (s : str) : str := match s with c :: r => if is_ws c then drop_ws r else s | [] => [] end.
Definition trim (s : str) : str := rev (drop_ws (rev (drop_ws s))).
(* split_whitespace: maximal runs of non-whitespace *)
Fixpoint split_ws_aux (s : str) (cur : str) (acc : list str) : list str :=
  match s with
  | [] => rev (match cur with [] => acc | _ => rev cur :: acc end)
  | c :: r => if is_ws c then split_ws_aux r [] (match cur with [] => acc | _ => rev cur :: acc end)
              else split_ws_aux r (c :: cur) acc
  end.
Definition split_ws (s : str) : list str := split_ws_aux s [] [].
(* to_uppercase / to_lowercase per code point (may expand to several code points) *)
Definition upper (c : N) : str :=
  if (97 <=? c) && (c <=? 122) then [c - 32]
  else if c =? 305 then [73]          (* dotless i -> I *)
  else if c =? 383 then [83]          (* long s -> S *)
  else if c =? 223 then [83; 83]      (* sharp s -> SS *)
  else if c =? 64256 then [70; 70]    (* ff *)
  else if c =? 64257 then [70; 73]    (* fi *)
  else if c =? 64258 then [70; 76]    (* fl *)
  else if c =? 64259 then [70; 70; 73] (* ffi *)
  else if c =? 64260 then [70; 70; 76] (* ffl *)
  else if c =? 7831 then [84; 776]    (* t with diaeresis -> T + combining diaeresis *)
  else if c =? 233 then [201]         (* e acute *)
  else [c].
Definition lower (c : N) : str :=
  if (65 <=? c) && (c <=? 90) then [c + 32]
  else if c =? 8490 then [107]        (* Kelvin sign -> k *)
  else if c =? 201 then [233]
  else [c].
Definition to_upper (s : str) : str := flat_map upper s.
Definition to_lower (s : str) : str := flat_map lower s.
Definition str_eqb (a b : str) : bool :=
  Nat.eqb (length a) (length b) && forallb (fun xy => fst xy =? snd xy) (combine a b).

(* ---------- Rank, Suit, Card ---------- *)
Definition rank_chars : str := [50; 51; 52; 53; 54; 55; 56; 57; 84; 74; 81; 75; 65]. (* 23456789TJQKA *)
Definition suit_chars : str := [99; 100; 104; 115].                                 (* cdhs *)
Definition suit_symbols : str := [9827; 9830; 9829; 9824].                          (* club diamond heart spade *)
Definition parse_rank (s : str) : pres N :=
  match to_upper (trim s) with
  | [c] => match position (N.eqb c) rank_chars with Some i => POk i | None => PErr end
  | _ => PErr
  end.
Definition parse_suit (s : str) : pres N :=
  match to_lower (trim s) with
  | [c] => match position (N.eqb c) suit_chars with
           | Some i => POk i
           | None => match position (N.eqb c) suit_symbols with Some i => POk i | None => PErr end
           end
  | _ => PErr
  end.
(* byte slices &t[0..1], &t[1..2] of a string of byte length 2: panic unless 1 is a char boundary *)
Definition parse_card (s : str) : pres N :=
  let t := trim s in
  if byte_len t =? 2 then
    if CARD_PARSE_CHECKS_BOUNDARY && negb (is_boundary t 1) then PErr
    else if negb (is_boundary t 1) then PPanic
    else match t with
         | [a; b] => match parse_rank [a] with
                     | POk r => match parse_suit [b] with POk su => POk (card_of_rank_suit r su) | PErr => PErr | PPanic => PPanic end
                     | PErr => PErr | PPanic => PPanic end
         | _ => PPanic
         end
  else PErr.
Definition print_card (c : N) : str := [nth (N.to_nat (card_rank c)) rank_chars 63; nth (N.to_nat (card_suit c)) suit_chars 63].

(* ---------- Hand ---------- *)
Fixpoint chunks2 (s : str) : list str :=
  match s with [] => [] | [a] => [[a]] | a :: b :: r => [a; b] :: chunks2 r end.
(* one token: all chunks must parse, otherwise the token contributes nothing; a panic propagates *)
Definition parse_token (t : str) : pres (list N) :=
  fold_right (fun ch acc => match parse_card ch, acc with
                            | PPanic, _ | _, PPanic => PPanic
                            | POk c, POk l => POk (c :: l)
                            | _, _ => PErr end) (POk []) (chunks2 t).
Definition parse_hand (s : str) : pres N :=
  fold_left (fun acc t => match acc, parse_token t with
                          | PPanic, _ | _, PPanic => PPanic
                          | POk h, POk cs => POk (fold_left (fun a c => N.lor a (N.shiftl 1 c)) cs h)
                          | POk h, PErr => POk h
                          | PErr, _ => PErr end) (split_ws s) (POk 0).
Definition print_hand (h : N) : str := flat_map print_card (hand_cards h).
Definition parse_hole (s : str) : pres N :=
  match parse_hand s with POk h => if hand_size h =? 2 then POk h else PErr | r => r end.

(* ---------- Observation ---------- *)
Fixpoint split_once (sep : N) (s : str) (acc : str) : option (str * str) :=
  match s with [] => None | c :: r => if c =? sep then Some (rev acc, r) else split_once sep r (c :: acc) end.
Definition parse_obs (s : str) : pres obs :=
  let t := trim s in
  let '(a, b) := match split_once 126 t [] with Some p => p | None => (t, []) end in
  match parse_hand a, parse_hand b with
  | PPanic, _ | _, PPanic => PPanic
  | POk pk, POk pb =>
      let n := hand_size pb in
      if (hand_size pk =? 2) && ((n =? 0) || (n =? 3) || (n =? 4) || (n =? 5))
         && (if OBS_PARSE_CHECKS_DISJOINT then N.land pk pb =? 0 else true)
      then POk (mkObs pk pb) else PErr
  | _, _ => PErr
  end.
Definition print_obs (o : obs) : str := print_hand (pocket o) ++ [32; 126; 32] ++ print_hand (public o).

(* ---------- Street ---------- *)
Definition parse_street (s : str) : pres Z :=
  match to_upper s with
  | 80 :: _ => POk 0%Z | 70 :: _ => POk 1%Z | 84 :: _ => POk 2%Z | 82 :: _ => POk 3%Z
  | _ => PErr
  end.
Definition print_street (z : Z) : str :=
  match z with
  | 0%Z => [112; 114; 101; 102; 108; 111; 112]   (* preflop *)
  | 1%Z => [102; 108; 111; 112]                  (* flop *)
  | 2%Z => [116; 117; 114; 110]                  (* turn *)
  | _ => [114; 105; 118; 101; 114]               (* river *)
  end.

(* ---------- integers ---------- *)
Definition digit_val (radix : N) (c : N) : option N :=
  let v := if (48 <=? c) && (c <=? 57) then Some (c - 48)
           else if (97 <=? c) && (c <=? 122) then Some (c - 87)
           else if (65 <=? c) && (c <=? 90) then Some (c - 55) else None in
  match v with Some d => if d <? radix then Some d else None | None => None end.
Fixpoint digits_val (radix : N) (s : str) (acc : N) : option N :=
  match s with
  | [] => Some acc
  | c :: r => match digit_val radix c with Some d => digits_val radix r (acc * radix + d) | None => None end
  end.
(* usize::from_str_radix / str::parse::<usize>: optional '+', at least one digit, <= 2^64 - 1 *)
Definition parse_unsigned (radix : N) (s : str) : option N :=
  let body := match s with 43 :: r => r | _ => s end in
  match body with
  | [] => None
  | _ => match digits_val radix body 0 with
         | Some v => if v <? two64 then Some v else None
         | None => None end
  end.
(* str::parse::<i16> *)
Definition parse_i16 (s : str) : option Z :=
  let '(neg, body) := match s with 45 :: r => (true, r) | 43 :: r => (false, r) | _ => (false, s) end in
  match body with
  | [] => None
  | _ => match digits_val 10 body 0 with
         | Some v => let z := if neg then (- Z.of_N v)%Z else Z.of_N v in
                     if ((-32768 <=? z) && (z <=? 32767))%Z then Some z else None
         | None => None end
  end.
Fixpoint dec_digits (fuel : nat) (n : N) (acc : str) : str :=
  match fuel with
  | O => acc
  | S f => let acc' := (48 + n mod 10) :: acc in if n / 10 =? 0 then acc' else dec_digits f (n / 10) acc'
  end.
Definition print_nat (n : N) : str := dec_digits 20 n [].
Definition print_int (z : Z) : str := if (z <? 0)%Z then 45 :: print_nat (Z.to_N (- z)) else print_nat (Z.to_N z).
Definition hex_digit (d : N) : N := if d <? 10 then 48 + d else 87 + d.
Fixpoint hex_digits (fuel : nat) (n : N) (acc : str) : str :=
  match fuel with
  | O => acc
  | S f => let acc' := hex_digit (n mod 16) :: acc in if n / 16 =? 0 then acc' else hex_digits f (n / 16) acc'
  end.

(* ---------- Abstraction ---------- *)
(* s.trim().split("::") : the pieces between occurrences of the two-character delimiter *)
Fixpoint split_dcolon (s : str) (cur : str) : list str :=
  match s with
  | 58 :: 58 :: r => rev cur :: split_dcolon r []
  | c :: r => split_dcolon r (c :: cur)
  | [] => [rev cur]
  end.
Definition parse_abs (s : str) : pres abstraction :=
  match split_dcolon (trim s) [] with
  | a :: b :: _ =>
      match parse_street a with
      | POk st => match parse_unsigned 16 b with
                  | Some ix => match abs_make (Z.to_N st) ix with Some x => POk x | None => PPanic end
                  | None => PErr end
      | PErr => PErr | PPanic => PPanic end
  | _ => PErr
  end.
(* "{S}::{index:02x}" with S the upper-cased first letter of the street's name *)
Definition print_abs (a : abstraction) : str :=
  let st := match abs_street a with Some x => Z.of_N x | None => 0%Z end in
  let h := hex_digits 16 (abs_index a) [] in
  to_upper (firstn 1 (print_street st)) ++ [58; 58] ++ (match h with [d] => [48; d] | _ => h end).

(* ---------- Action ---------- *)
Definition w_check : str := [67; 72; 69; 67; 75].
Definition w_fold : str := [70; 79; 76; 68].
Definition w_call : str := [67; 65; 76; 76].
Definition w_raise : str := [82; 65; 73; 83; 69].
Definition w_shove : str := [83; 72; 79; 86; 69].
Definition w_blind : str := [66; 76; 73; 78; 68].
Definition w_deal : str := [68; 69; 65; 76].
Fixpoint join_sp (l : list str) : str :=
  match l with [] => [] | [x] => x | x :: r => x ++ [32] ++ join_sp r end.
Definition parse_action (s : str) : pres action :=
  match split_ws s with
  | [] => if ACTION_PARSE_CHECKS_EMPTY then PErr else PPanic      (* parts[0] *)
  | w :: rest =>
      let u := to_upper w in
      let amount (mk : Z -> action) :=
        match rest with
        | a :: _ => match parse_i16 a with Some z => POk (mk z) | None => PErr end
        | [] => PErr end in
      if str_eqb u w_check then POk Check
      else if str_eqb u w_fold then POk Fold
      else if str_eqb u w_call then amount Call
      else if str_eqb u w_raise then amount Raise
      else if str_eqb u w_shove then amount Shove
      else if str_eqb u w_blind then amount Blind
      else if str_eqb u w_deal then
        match parse_hand (join_sp rest) with POk h => POk (Draw h) | PErr => PErr | PPanic => PPanic end
      else PErr
  end.
Definition print_action (a : action) : str :=
  match a with
  | Fold => w_fold | Check => w_check
  | Draw h => w_deal ++ [32; 32] ++ print_hand h
  | Call c => w_call ++ [32; 32] ++ print_int c
  | Blind c => w_blind ++ [32] ++ print_int c
  | Raise c => w_raise ++ [32] ++ print_int c
  | Shove c => w_shove ++ [32] ++ print_int c
  end.

(* ---------- Turn ---------- *)
Inductive pturn := TTerminal | TChance | TChoice (i : N).
Definition parse_turn (s : str) : pres pturn :=
  if str_eqb s [88; 88] then POk TTerminal
  else if str_eqb s [63; 63] then POk TChance
  else match s with
       | 80 :: r => match parse_unsigned 10 r with Some i => POk (TChoice i) | None => PErr end
       | _ => PErr
       end.
Definition print_turn (t : pturn) : str :=
  match t with TTerminal => [88; 88] | TChance => [63; 63] | TChoice i => 80 :: print_nat i end.
