(* Model/Iso.v -- executable model (L0, over N) of the suit-isomorphism canonicalisation (property C05):
   src/cards/permutation.rs (From<&Observation>, order, colex, shift, image, permute, exhaust),
   src/cards/isomorphism.rs (From<Observation>, is_canonical), src/cards/hand.rs (of, size,
   min_rank, max_rank), src/cards/rank.rs (lo, hi).  A permutation is the list [p C; p D; p H; p S].
   No proofs in this file. *)
From Coq Require Import NArith ZArith List Bool.
From RP Require Import Base.Bits Gen.GenCards Gen.GenPerm Model.Codec Model.Evaluator.
Import ListNotations.
Open Scope N_scope.

Definition perm := list N.
Definition identity : perm := [0; 1; 2; 3].
Definition perm_map (p : perm) (s : N) : N := nth (N.to_nat s) p 0.

(* Hand::min_rank / max_rank : Option<Rank>; Rank::lo = tz / 4, Rank::hi = (63 - lzcnt) / 4 *)
Definition min_rank (h : N) : option N := if hand_size h =? 0 then None else Some (tz64 h / 4).
Definition max_rank (h : N) : option N := if hand_size h =? 0 then None else Some (N.log2 h / 4).
Definition cmp_opt (a b : option N) : comparison :=   (* derived Ord of Option: None < Some *)
  match a, b with
  | None, None => Eq | None, Some _ => Lt | Some _, None => Gt | Some x, Some y => N.compare x y
  end.

(* colex: (suit, pocket lane, public lane) *)
Record lane := mkLane { lsuit : N; lpocket : N; lpublic : N }.
Definition colex (d : deck) (o : obs) (s : N) : lane :=
  mkLane s (hand_of_suit d (pocket o) s) (hand_of_suit d (public o) s).
Definition cmp_key (k : order_key) (a b : lane) : comparison :=
  match k with
  | KPocketSize => N.compare (hand_size (lpocket a)) (hand_size (lpocket b))
  | KPublicSize => N.compare (hand_size (lpublic a)) (hand_size (lpublic b))
  | KPocketMin => cmp_opt (min_rank (lpocket a)) (min_rank (lpocket b))
  | KPublicMin => cmp_opt (min_rank (lpublic a)) (min_rank (lpublic b))
  | KPocketMax => cmp_opt (max_rank (lpocket a)) (max_rank (lpocket b))
  | KPublicMax => cmp_opt (max_rank (lpublic a)) (max_rank (lpublic b))
  | KSuit => N.compare (lsuit a) (lsuit b)
  end.
(* Permutation::order: the then_with chain in source order *)
Definition order (a b : lane) : comparison :=
  fold_left (fun acc k => lex acc (cmp_key k a b)) ORDER_KEYS Eq.
(* sort_by(order) on four elements: stable insertion sort (the order is total, so any sort agrees) *)
Fixpoint insert (x : lane) (l : list lane) : list lane :=
  match l with
  | [] => [x]
  | y :: r => match order x y with Gt => y :: insert x r | _ => x :: l end
  end.
Definition sort_lanes (l : list lane) : list lane := fold_right insert [] l.
(* permutation[suit at sorted position i] = i *)
Definition set_nth (i : nat) (v : N) (l : list N) : list N :=
  map (fun kx => if Nat.eqb (fst kx) i then v else snd kx) (combine (seq 0 (length l)) l).
Definition perm_of_obs (d : deck) (o : obs) : perm :=
  let sorted := sort_lanes (map (colex d o) [0; 1; 2; 3]) in
  fold_left (fun p il => set_nth (N.to_nat (lsuit (snd il))) (fst il) p) (combine [0; 1; 2; 3] sorted) identity.

(* shift one suit lane to its new suit; Hand::from masks with the deck mask *)
Definition shift (d : deck) (p : perm) (s h : N) : N :=
  let new := perm_map p s in
  let cards := N.land (suit_mask s) h in
  if s <=? new then hand_of_u64 d (u64 (N.shiftl cards (new - s)))
  else hand_of_u64 d (N.shiftr cards (s - new)).
(* image: union of the shifted lanes; Hand::add panics on overlap *)
Definition image (d : deck) (p : perm) (h : N) : option N :=
  fold_left (fun acc s => match acc with Some a => hand_add a (shift d p s h) | None => None end) [0; 1; 2; 3] (Some 0).
(* permute: Observation::from((pocket', public')) asserts |pocket| = 2, |public| <= 5 *)
Definition permute (d : deck) (p : perm) (o : obs) : option obs :=
  match image d p (pocket o), image d p (public o) with
  | Some a, Some b => obs_from_parts a b
  | _, _ => None
  end.
Definition canon (d : deck) (o : obs) : option obs := permute d (perm_of_obs d o) o.
Definition perm_eqb (a b : perm) : bool :=
  Nat.eqb (length a) (length b) && forallb (fun xy => fst xy =? snd xy) (combine a b).
Definition is_canonical (d : deck) (o : obs) : bool := perm_eqb (perm_of_obs d o) identity.
