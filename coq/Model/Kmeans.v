(* Model/Kmeans.v -- executable model of one k-means step (property C13): src/clustering/layer.rs
   (neighborhood, next, lookup, metric), src/clustering/histogram.rs (absorb, increment, mass),
   src/clustering/metric.rs (From<BTreeMap>: normalisation by the maximum), pair keys.
   Generic in the matrix of earth mover's distances: D k i = emd(point i, centroid k) as obtained
   from the implementation (the distance function itself is property C12); a distance is an
   `option F` where None stands for a value on which partial_cmp(..).unwrap() panics (NaN).
   No proofs in this file. *)
From Coq Require Import NArith ZArith List Bool.
From RP Require Import Base.Bits Model.Codec.
Import ListNotations.

Section Arith.
Variable F : Type.
Variables (f0 : F) (fadd fdiv : F -> F -> F) (flt fle : F -> F -> bool) (two : F) (fminpos : F).

(* first index of the minimum (Iterator::min_by returns the first of equal minima); None on NaN or no centroid *)
Fixpoint argmin_aux (ds : list (option F)) (i : nat) (best : option (nat * F)) : option (nat * F) :=
  match ds with
  | [] => best
  | None :: _ => None
  | Some x :: r =>
      match best with
      | None => argmin_aux r (S i) (Some (i, x))
      | Some (j, y) => if flt x y then argmin_aux r (S i) (Some (i, x)) else argmin_aux r (S i) best
      end
  end.
Definition neighborhood (column : list (option F)) : option (nat * F) :=
  match column with [] => None | _ => argmin_aux column 0 None end.

(* histograms: key-sorted association lists abstraction code -> count, with their mass *)
Definition hist := list (N * N).
Fixpoint hist_add (k c : N) (h : hist) : hist :=
  match h with
  | [] => [(k, c)]
  | (k', c') :: r => if N.ltb k k' then (k, c) :: h else if N.eqb k k' then (k', N.add c' c) :: r else (k', c') :: hist_add k c r
  end.
Definition absorb (acc other : hist) : hist := fold_left (fun a kc => hist_add (fst kc) (snd kc) a) other acc.
Definition mass (h : hist) : N := fold_left (fun a kc => N.add a (snd kc)) h 0%N.

(* Layer::next: K empty centroids, every point absorbed into its nearest one, in point order *)
Fixpoint upd {A} (i : nat) (f : A -> A) (l : list A) : list A :=
  match l, i with [], _ => [] | x :: r, O => f x :: r | x :: r, S j => x :: upd j f r end.
Definition next_step (k : nat) (points : list hist) (columns : list (list (option F))) : option (list hist) :=
  fold_left (fun acc pc =>
               match acc, neighborhood (snd pc) with
               | Some cs, Some (j, _) => if Nat.ltb j k then Some (upd j (fun c => absorb c (fst pc)) cs) else None
               | _, _ => None end)
            (combine points columns) (Some (repeat [] k)).
(* Layer::lookup: the i-th isomorphism class gets the abstraction of the centroid nearest to the i-th point
   (zip truncates silently when the lengths differ) *)
Definition lookup_step (street : N) (classes : list obs) (columns : list (list (option F))) : option (list (obs * N)) :=
  opt_map_all (fun oc => match neighborhood (snd oc) with
                         | Some (j, _) => match abs_make street (N.of_nat j) with
                                          | Some a => Some (fst oc, abits a) | None => None end
                         | None => None end) (combine classes columns).
(* Layer::metric: for i > j the symmetrised distance between centroids, keyed by the pair key;
   Metric::from divides by the maximum (at least MIN_POSITIVE) *)
Definition fmax (a b : F) : F := if fle a b then b else a.
Definition metric_step (street : N) (dist : nat -> nat -> F) (k : nat) : option (list (N * F)) :=
  let entries :=
    flat_map (fun i => flat_map (fun j =>
      if Nat.ltb j i then
        match abs_make street (N.of_nat i), abs_make street (N.of_nat j) with
        | Some a, Some b => [Some (pair_key (abits a) (abits b), fdiv (fadd (dist i j) (dist j i)) two)]
        | _, _ => [None] end
      else []) (seq 0 k)) (seq 0 k) in
  match opt_map_all (fun x => x) entries with
  | Some es => let mx := fold_left (fun a e => fmax a (snd e)) es fminpos in
               Some (map (fun e => (fst e, fdiv (snd e) mx)) es)
  | None => None
  end.
End Arith.
