(* Model/Emd.v -- executable model of the earth mover's distances (property C12):
   src/clustering/sinkhorn.rs (log-domain Sinkhorn: potentials, divergence, coupling, cost, the
   iteration cap and the tolerance stop), src/clustering/equity.rs (Equity::variation),
   src/clustering/heuristic.rs (greedy plan), src/clustering/potential.rs (uniform).
   Parametric in the arithmetic incl. exp and ln (libm is not modelled): the theorems instantiate it
   with exact reals/rationals, the per-run replay with binary32-rounded floats.
   A histogram is a list of (bucket index, density) with positive densities; the bucket metric is a
   function on indices.  No proofs in this file. *)
From Coq Require Import NArith ZArith QArith List Bool.
From RP Require Import Gen.GenLib.
Import ListNotations.

Section Arith.
Variable F : Type.
Variables (f0 : F) (fadd fsub fmul fdiv : F -> F -> F) (fexp fln fabs : F -> F) (flt fle : F -> F -> bool).
Variables (temperature tolerance minpos : F) (of_nat : nat -> F).
Definition fmax (a b : F) : F := if fle a b then b else a.
Definition fsum (l : list F) : F := fold_left fadd l f0.

Definition hist := list (N * F).
Definition potential := list (N * F).
Variable dist : N -> N -> F.                       (* Metric::distance: 0 on equal buckets *)
Definition reg (x y : N) : F := fdiv (dist x y) temperature.
(* Potential::uniform: ln(1 / n) on the support *)
Definition uniform (h : hist) : potential := map (fun xp => (fst xp, fln (fdiv (of_nat 1) (of_nat (length h))))) h.
(* divergence(x, histogram, potential) = ln density(x) - ln sum_y max(exp(potential(y) - reg(x, y)), MIN_POSITIVE) *)
Definition divergence (x : N) (dens : F) (pot : potential) : F :=
  fsub (fln dens) (fln (fsum (map (fun yp => fmax (fexp (fsub (snd yp) (reg x (fst yp)))) minpos) pot))).
Definition lhs_update (mu : hist) (rhs : potential) : potential := map (fun xp => (fst xp, divergence (fst xp) (snd xp) rhs)) mu.
Definition rhs_update (nu : hist) (lhs : potential) : potential := map (fun yp => (fst yp, divergence (fst yp) (snd yp) lhs)) nu.
Definition delta (prev next : potential) : F :=
  fsum (map (fun pn => fabs (fsub (fexp (snd (snd pn))) (fexp (snd (fst pn))))) (combine prev next)).
(* the loop: at most `iters` rounds, stop when the potentials moved less than the tolerance *)
Fixpoint sinkhorn (iters : nat) (mu nu : hist) (lhs rhs : potential) : potential * potential :=
  match iters with
  | O => (lhs, rhs)
  | S k =>
      let lhs' := lhs_update mu rhs in
      let e1 := delta lhs lhs' in
      let rhs' := rhs_update nu lhs' in
      let e2 := delta rhs rhs' in
      if flt (fadd e1 e2) tolerance then (lhs', rhs') else sinkhorn k mu nu lhs' rhs'
  end.
Definition minimize (mu nu : hist) : potential * potential :=
  sinkhorn (Z.to_nat SINKHORN_ITERATIONS) mu nu (uniform mu) (uniform nu).
Definition coupling (lr : potential * potential) (x y : N * F) : F := fexp (fsub (fadd (snd x) (snd y)) (reg (fst x) (fst y))).
Definition plan (lr : potential * potential) : list (list F) :=
  map (fun x => map (fun y => coupling lr x y) (snd lr)) (fst lr).
Definition cost (lr : potential * potential) : F :=
  fsum (flat_map (fun x => map (fun y => fmul (coupling lr x y) (dist (fst x) (fst y))) (snd lr)) (fst lr)).
Definition sinkhorn_emd (mu nu : hist) : F := cost (minimize mu nu).

(* Equity::variation: sum over the 101 equity buckets of |cdf_x - cdf_y|, divided by the number of buckets *)
Fixpoint variation_aux (xs ys : list F) (cx cy acc : F) : F :=
  match xs, ys with
  | x :: xr, y :: yr => let cx' := fadd cx x in let cy' := fadd cy y in variation_aux xr yr cx' cy' (fadd acc (fabs (fsub cx' cy')))
  | _, _ => acc
  end.
Definition variation (xs ys : list F) : F := fdiv (variation_aux xs ys f0 f0 f0) (of_nat (length xs)).

(* Heuristic::minimize: every pile repeatedly ships to its nearest non-empty sink; returns the plan as
   (source, target, mass) moves and the cost sum mass * distance.  Fuel bounds the outer loop. *)
Fixpoint nearest_sink (x : N) (sinks : list (N * F)) (best : option (N * F * F)) : option (N * F * F) :=
  match sinks with
  | [] => best
  | (y, dy) :: r =>
      if flt f0 dy then
        let dxy := dist x y in
        match best with
        | Some (_, _, db) => if flt dxy db then nearest_sink x r (Some (y, dy, dxy)) else nearest_sink x r best
        | None => nearest_sink x r (Some (y, dy, dxy))
        end
      else nearest_sink x r best
  end.
Definition fmin (a b : F) : F := if fle a b then a else b.
Definition set_mass (k : N) (v : F) (l : list (N * F)) : list (N * F) :=
  map (fun kv => if N.eqb (fst kv) k then (k, v) else kv) l.
(* one sweep over the piles that were positive at its start *)
Fixpoint sweep (todo : list N) (piles sinks : list (N * F)) (moves : list (N * N * F * F)) (stop : bool)
  : list (N * F) * list (N * F) * list (N * N * F * F) * bool :=
  match todo with
  | [] => (piles, sinks, moves, stop)
  | x :: r =>
      let dx := match find (fun kv => N.eqb (fst kv) x) piles with Some kv => snd kv | None => f0 end in
      match nearest_sink x sinks None with
      | None => (piles, sinks, moves, true)                       (* break 'cost *)
      | Some (y, dy, dxy) =>
          let m := fmin dx dy in
          sweep r (set_mass x (fsub dx m) piles) (set_mass y (fsub dy m) sinks) (moves ++ [(x, y, m, dxy)]) stop
      end
  end.
Fixpoint greedy (fuel : nat) (piles sinks : list (N * F)) (moves : list (N * N * F * F)) : list (N * N * F * F) :=
  match fuel with
  | O => moves
  | S k =>
      let live := map fst (filter (fun kv => flt f0 (snd kv)) piles) in
      match live with
      | [] => moves
      | _ => let '(p, s, mv, stop) := sweep live piles sinks moves false in
             if stop then mv else greedy k p s mv
      end
  end.
Definition greedy_cost (moves : list (N * N * F * F)) : F :=
  fsum (map (fun m => let '(_, _, mass, d) := m in fmul mass d) moves).
End Arith.
