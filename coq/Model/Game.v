(* Model/Game.v -- executable model of the betting engine src/gameplay/game.rs (+ seat.rs, ply.rs,
   deck bookkeeping, the abstract action menu of the `impl Game` block at the end of game.rs).
   Properties C02, C03, C10, C11, C14.
   Chips over Z (the invariants bound every quantity far inside i16, see Proofs); cards are
   64-bit masks as in Model/Codec; any number of seats (the configured game has N_PLAYERS).
   A Rust panic / failed assertion is `None`.  Random card choices (Deck::deal inside legal())
   are not modelled: `legal` lists a placeholder `Draw 0` where the engine offers a random draw.
   No proofs in this file. *)
From Coq Require Import ZArith NArith List Bool.
From RP Require Import Base.Bits Gen.GenLib Gen.GenStreet Gen.GenAbstract Gen.GenFixes
                       Model.Codec Model.Evaluator Model.Showdown.
Import ListNotations.
Open Scope Z_scope.

Record seat := mkSeat { st : sstate; stack : Z; stake : Z; spent : Z; cards : N }.
Record game := mkGame { seats : list seat; pot : Z; board : N; dealer : Z; ticker : Z }.
Inductive turn := Terminal | Chance | Choice (i : Z).

Definition dseat : seat := mkSeat Folding 0 0 0 0%N.
Definition nplayers (g : game) : Z := N_PLAYERS.      (* Game::n() is the constant N *)

(* street = Street::from(board.size()); sizes 1, 2, > 5 panic in the engine and never arise
   (invariant board_ok in Proofs); the model maps them to 0 *)
Definition street (g : game) : Z :=
  match street_of_size (Z.of_N (hand_size (board g))) with Some s => s | None => 0 end.
Definition board_ok (g : game) : bool :=
  match street_of_size (Z.of_N (hand_size (board g))) with Some _ => true | None => false end.
Definition n_revealed (s : Z) : option Z :=
  match nth_error N_REVEALED (Z.to_nat s) with Some (Some n) => Some n | _ => None end.

Definition actor_idx (g : game) : Z := (dealer g + ticker g) mod (nplayers g).
Definition actor (g : game) : seat := nth (Z.to_nat (actor_idx g)) (seats g) dseat.
Definition upd_nth {A} (i : nat) (f : A -> A) (l : list A) : list A :=
  map (fun ks => if Nat.eqb (fst ks) i then f (snd ks) else snd ks) (combine (seq 0 (length l)) l).
Definition upd_actor (g : game) (f : seat -> seat) : list seat := upd_nth (Z.to_nat (actor_idx g)) f (seats g).
Definition set_seats (g : game) (ss : list seat) : game := mkGame ss (pot g) (board g) (dealer g) (ticker g).

Definition live (g : game) : list seat := filter (fun s => negb (sstate_eqb (st s) Folding)) (seats g).
Definition effective_stake (g : game) : Z :=
  match map stake (seats g) with [] => 0 | x :: r => fold_left Z.max r x end.
Definition to_call (g : game) : Z := effective_stake g - stake (actor g).
Definition to_shove (g : game) : Z := stack (actor g).
Definition two_largest (l : list Z) : Z * Z :=
  fold_left (fun mn sk => let '(most, next) := mn in
                          if most <? sk then (sk, most) else if next <? sk then (most, sk) else (most, next)) l (0, 0).
Definition to_raise (g : game) : Z :=
  let '(most, next) := two_largest (map stake (live g)) in
  (most - stake (actor g)) + Z.max (most - next) B_BLIND.

Definition is_everyone_folding (g : game) : bool := Nat.eqb (length (live g)) 1.
Definition is_everyone_shoving (g : game) : bool := forallb (fun s => sstate_eqb (st s) Shoving) (live g).
Definition is_everyone_matched (g : game) : bool :=
  forallb (fun s => stake s =? effective_stake g) (filter (fun s => sstate_eqb (st s) Betting) (seats g)).
Definition is_everyone_touched (g : game) : bool :=
  nplayers g + (if street g =? 0 then 2 else 0) <? ticker g.
Definition is_everyone_calling (g : game) : bool := is_everyone_touched g && is_everyone_matched g.
Definition is_everyone_alright (g : game) : bool :=
  is_everyone_calling g || is_everyone_folding g || is_everyone_shoving g.
Definition must_stop (g : game) : bool :=
  if street g =? 3 then is_everyone_alright g else is_everyone_folding g.
Definition must_deal (g : game) : bool :=
  if street g =? 3 then false else is_everyone_alright g.
Definition must_post (g : game) : bool :=
  if street g =? 0 then pot g <? S_BLIND + B_BLIND else false.

Definition may_fold (g : game) : bool := 0 <? to_call g.
Definition may_call (g : game) : bool := may_fold g && (to_call g <? to_shove g).
Definition may_check (g : game) : bool := effective_stake g =? stake (actor g).
Definition may_raise (g : game) : bool := to_raise g <? to_shove g.
Definition may_shove (g : game) : bool := 0 <? to_shove g.

Definition turn_of (g : game) : turn :=
  if must_stop g then Terminal else if must_deal g then Chance else Choice (actor_idx g).

(* Game::legal(); `Draw 0` stands for the randomly drawn cards *)
Definition legal (g : game) : list action :=
  if must_stop g then []
  else if must_deal g then [Draw 0%N]
  else if must_post g then [Blind S_BLIND]
  else (if may_raise g then [Raise (to_raise g)] else [])
       ++ (if may_shove g then [Shove (to_shove g)] else [])
       ++ (if may_call g then [Call (to_call g)] else [])
       ++ (if may_fold g then [Fold] else [])
       ++ (if may_check g then [Check] else []).

(* Game::deck(): complement of board and hole cards; Hand::add panics on overlap *)
Definition removed (g : game) : option N :=
  fold_left (fun acc s => match acc with Some r => hand_add r (cards s) | None => None end) (seats g) (Some (board g)).
Definition deck_of (d : deck) (g : game) : option N :=
  match removed g with Some r => Some (N.lxor r (hand_mask d)) | None => None end.

Definition action_eqb (a b : action) : bool :=
  match a, b with
  | Draw x, Draw y => N.eqb x y
  | Fold, Fold | Check, Check => true
  | Call x, Call y | Raise x, Raise y | Shove x, Shove y | Blind x, Blind y => x =? y
  | _, _ => false
  end.

(* Game::is_allowed; the guard of the Raise arm is read from the source (Gen/GenFixes) *)
Definition is_allowed (d : deck) (g : game) (a : action) : option bool :=
  if must_stop g then Some false else
  match a with
  | Raise r =>
      Some ((if RAISE_ARM_CHECKS_TURN then negb (must_deal g) && negb (must_post g) else true)
            && may_raise g && (to_raise g <=? r) && (r <=? to_shove g - 1))
  | Draw h =>
      if must_deal g then
        match deck_of d g with
        | None => None
        | Some dk =>
            if N.eqb (N.land h (N.lxor dk 18446744073709551615%N)) 0
            then match n_revealed (street g) with
                 | Some n => Some (Z.of_N (hand_size h) =? n)
                 | None => None end
            else Some false
        end
      else Some false
  | Blind _ => Some (must_post g)
  | _ => Some (existsb (action_eqb a) (legal g))
  end.

Fixpoint next_loop (fuel : nat) (g : game) : option game :=
  match fuel with
  | O => None                      (* the engine would spin forever: no Betting seat *)
  | S f =>
      let g' := mkGame (seats g) (pot g) (board g) (dealer g) (ticker g + 1) in
      if sstate_eqb (st (actor g')) Betting then Some g' else next_loop f g'
  end.
Definition next_player (g : game) : option game :=
  if is_everyone_alright g then Some g else next_loop (length (seats g)) g.

Definition bet (g : game) (c : Z) : option game :=
  if stack (actor g) <? c then None else
  let g1 := mkGame (upd_actor g (fun s => mkSeat (st s) (stack s - c) (stake s + c) (spent s + c) (cards s)))
                   (pot g + c) (board g) (dealer g) (ticker g) in
  if stack (actor g1) =? 0
  then Some (set_seats g1 (upd_actor g1 (fun s => mkSeat Shoving (stack s) (stake s) (spent s) (cards s))))
  else Some g1.
Definition fold_actor (g : game) : game :=
  set_seats g (upd_actor g (fun s => mkSeat Folding (stack s) (stake s) (spent s) (cards s))).
Definition reset_stakes (g : game) : game :=
  set_seats g (map (fun s => mkSeat (st s) (stack s) 0 (spent s) (cards s)) (seats g)).

(* Game::act after its assert!(is_allowed) *)
Definition act_unchecked (g : game) (a : action) : option game :=
  match a with
  | Check => next_player g
  | Fold => next_player (fold_actor g)
  | Call c | Blind c | Raise c | Shove c =>
      match bet g c with Some g1 => next_player g1 | None => None end
  | Draw h =>
      match hand_add (board g) h with
      | None => None
      | Some b =>
          match next_player (mkGame (seats g) (pot g) b (dealer g) (dealer g)) with
          | Some g2 => Some (reset_stakes g2)
          | None => None
          end
      end
  end.
(* Game::apply = clone + act: None when the assertion fails (the original is untouched) *)
Definition apply (d : deck) (g : game) (a : action) : option game :=
  match is_allowed d g a with
  | Some true => act_unchecked g a
  | _ => None
  end.

Definition to_post (g : game) : Z :=
  if Z.rem (ticker g - dealer g) (nplayers g) =? 1
  then Z.min S_BLIND (stack (actor g)) else Z.min B_BLIND (stack (actor g)).
(* Game::base() with the hole cards of deal(); Game::root() = base().deal().post() *)
Definition base (holes : list N) : game :=
  mkGame (map (fun h => mkSeat Betting STACK 0 0 h) holes) 0 0%N 0 1.
Definition post (d : deck) (g : game) : option game :=
  match apply d g (Blind (to_post g)) with
  | Some g1 => apply d g1 (Blind (to_post g1))
  | None => None
  end.
Definition root (d : deck) (holes : list N) : option game := post d (base holes).
Fixpoint run (d : deck) (g : game) (acts : list action) : option game :=
  match acts with
  | [] => Some g
  | a :: r => match apply d g a with Some g' => run d g' r | None => None end
  end.

(* ---------- settlement ---------- *)
Definition strength_key (d : deck) (s : strength) : N :=
  (((category_index d (rcat (svalue s)) * 16 + r1 (svalue s)) * 16 + r2 (svalue s)) * 65536 + skicks s)%N.
Definition seat_strength (d : deck) (g : game) (s : seat) : option N :=
  match hand_add (cards s) (board g) with
  | Some h => match strength_of d h with Some x => Some (strength_key d x) | None => None end
  | None => None
  end.
Definition ledger (d : deck) (g : game) : option (list pay) :=
  opt_map_all (fun s => match seat_strength d g s with
                        | Some k => Some (mkPay 0 (spent s) (st s) k) | None => None end) (seats g).
(* Game::settlements(): rewards per seat; asserts must_stop *)
Definition settlements (d : deck) (g : game) : option (list Z) :=
  if must_stop g then match ledger d g with Some l => settle l | None => None end else None.

(* ---------- abstract action menu (C11) ---------- *)
Definition raises (g : game) (n : Z) : list (Z * Z) :=
  if MAX_RAISE_REPEATS <? n then []
  else if street g =? 0 then PREF_RAISES
  else if street g =? 1 then FLOP_RAISES
  else if n =? 0 then LATE_RAISES else LAST_RAISES.
(* Edge::from(Action) panics on Raise and Blind *)
Definition expand (g : game) (n : Z) (a : action) : option (list edge) :=
  match a with
  | Raise _ => Some (map (fun o => ERaise (fst o) (snd o)) (raises g n))
  | Fold => Some [EFold] | Check => Some [ECheck] | Call _ => Some [ECall]
  | Draw _ => Some [EDraw] | Shove _ => Some [EShove]
  | Blind _ => None
  end.
Definition choices (g : game) (n : Z) : option (list edge) :=
  match opt_map_all (expand g n) (legal g) with Some ls => Some (concat ls) | None => None end.
(* (pot as f32 * (num as f32 / den as f32)) as i16 ; here the exact floor -- the binary32
   computation is modelled in Model/BetF32.v and proved equal to this on the reachable range *)
Definition bet_of_odds (potv num den : Z) : Z := potv * num / den.
(* Game::actionize (Draw returns the placeholder) *)
Definition actionize (g : game) (e : edge) : action :=
  match e with
  | ECheck => Check | EFold => Fold | EDraw => Draw 0%N
  | ECall => Call (to_call g) | EShove => Shove (to_shove g)
  | ERaise num den =>
      let mn := to_raise g in let mx := to_shove g in
      let b := bet_of_odds (pot g) num den in
      if mx <=? b then Shove mx else if b <=? mn then Raise mn else Raise b
  end.
