(* Model/BetF32.v -- the binary32 computation of Game::actionize,
     (pot as f32 * (num as f32 / den as f32)) as i16,
   modelled bit-exactly with Flocq (IEEE 754 binary32, round to nearest even; `as i16` truncates toward
   zero and saturates), for the statement that on the reachable range it equals the exact floor
   pot * num / den used by Model/Game.bet_of_odds.  Not extracted. *)
From Coq Require Import ZArith List.
From Flocq Require Import IEEE754.BinarySingleNaN IEEE754.Bits Core.Zaux.
From RP Require Import Gen.GenLib Gen.GenAbstract.
Import ListNotations.
Open Scope Z_scope.

Definition prec := 24. Definition emax := 128.
Definition f32 := binary_float prec emax.
Lemma Hprec : FLX.Prec_gt_0 prec. Proof. reflexivity. Qed.
Lemma Hmax : Prec_lt_emax prec emax. Proof. reflexivity. Qed.
(* `x as f32` for a small integer *)
Definition of_Z (z : Z) : f32 := binary_normalize prec emax Hprec Hmax mode_NE z 0 false.
Definition fdiv (a b : f32) : f32 := @Bdiv prec emax Hprec Hmax mode_NE a b.
Definition fmul (a b : f32) : f32 := @Bmult prec emax Hprec Hmax mode_NE a b.
(* `x as i16`: truncation toward zero, saturating, NaN -> 0 *)
Definition to_i16 (x : f32) : Z :=
  match x with
  | B754_finite s m e _ =>
      let z := match e with Z0 => Zpos m | Zpos p => Zpos m * 2 ^ Zpos p | Zneg p => Zpos m / 2 ^ Zpos p end in
      let v := if s then - z else z in
      Z.max (-32768) (Z.min 32767 v)
  | B754_infinity s => if s then -32768 else 32767
  | _ => 0
  end.
Definition bet_f32 (pot num den : Z) : Z := to_i16 (fmul (of_Z pot) (fdiv (of_Z num) (of_Z den))).
(* every odds value on any street's grid *)
Definition all_odds : list (Z * Z) := PREF_RAISES ++ FLOP_RAISES ++ LATE_RAISES ++ LAST_RAISES.
Definition bet_agrees (pot : Z) : bool :=
  forallb (fun o => Z.eqb (bet_f32 pot (fst o) (snd o)) (pot * fst o / snd o)) all_odds.
