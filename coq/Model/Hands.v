(* Model/Hands.v -- executable model (L0, over N with explicit u64 behaviour) of the exhaustive
   iterators (property C06): src/cards/hands.rs (HandIterator: permute = Gosper's next bit
   permutation, exhausted, look, advance, constructor), src/cards/observations.rs
   (ObservationIterator: outer x inner composition with its pre-flop special case),
   src/cards/isomorphisms.rs (filter is_canonical), Observation::children.
   Loops run on binary fuel (structural recursion on a positive: 2^depth steps available,
   stops as soon as the loop condition fails); exhaustion of the fuel is a distinguished result.
   Debug-build integer semantics: overflow / underflow / over-wide shifts are `None`.
   No proofs in this file. *)
From Coq Require Import NArith ZArith List Bool.
From RP Require Import Base.Bits Gen.GenStreet Model.Codec Model.Evaluator Model.Iso.
Import ListNotations.
Open Scope N_scope.

Definition ones64 : N := 18446744073709551615.
(* HandIterator::permute *)
Definition permute_next (x : N) : option N :=
  if x =? 0 then None else                       (* x - 1 underflows *)
  let a := N.lor x (x - 1) in
  if a =? ones64 then None else                  (* a + 1 overflows *)
  let b := a + 1 in
  let c := N.lxor a ones64 in
  let d := N.land c b in
  if d =? 0 then None else                       (* d - 1 underflows *)
  let e := d - 1 in
  let f := 1 + tz64 x in
  if 64 <=? f then None else                     (* shift by >= 64 *)
  Some (N.lor b (N.shiftr e f)).
Definition exhausted (next : N) : bool := (next =? 0) || (4503599627370496 <=? next). (* 12 > lzcnt <-> next >= 2^52 *)

Record hiter := mkHiter { hnext : N; hmask : N }.

(* run `step` until it says stop, at most 2^|fuel| times *)
Inductive outcome (A : Type) := Stop (a : A) | Go (a : A) | Crash.
Arguments Stop {A}. Arguments Go {A}. Arguments Crash {A}.
Fixpoint repeat_until {A} (fuel : positive) (step : A -> outcome A) (a : A) : outcome A :=
  match fuel with
  | xH => step a
  | xO p => match repeat_until p step a with Go a' => repeat_until p step a' | r => r end
  | xI p => match step a with
            | Go a1 => match repeat_until p step a1 with Go a2 => repeat_until p step a2 | r => r end
            | r => r end
  end.
Definition big_fuel : positive := 1152921504606846976.  (* 2^60 > C(64,32): more steps than bit patterns of fixed weight *)

(* advance(): loop { next = permute(); if next & mask == 0 { break } } *)
Definition advance_step (mask : N) (x : N) : outcome N :=
  match permute_next x with
  | None => Crash
  | Some y => if N.land y mask =? 0 then Stop y else Go y
  end.
Definition advance (it : hiter) : option hiter :=
  match repeat_until big_fuel (advance_step (hmask it)) (hnext it) with
  | Stop y => Some (mkHiter y (hmask it)) | _ => None end.
(* constructor: next = (1 << n) - 1 ; while next & mask > 0 && !exhausted { next = permute() } *)
Definition skip_step (mask : N) (x : N) : outcome N :=
  if (0 <? N.land x mask) && negb (exhausted x)
  then match permute_next x with Some y => Go y | None => Crash end
  else Stop x.
Definition iter_mask (d : deck) (mask : N) : N :=
  match d with Standard => mask | Short => N.lor mask 65535 end.
Definition hand_iter (d : deck) (n : N) (mask : N) : option hiter :=
  if 64 <=? n then None else
  match repeat_until big_fuel (skip_step (iter_mask d mask)) (N.shiftl 1 n - 1) with
  | Stop x => Some (mkHiter x (iter_mask d mask)) | _ => None end.
(* Iterator::next : (item, iterator') ; look() = Hand::from(next) masks with the deck mask *)
Definition hand_next (d : deck) (it : hiter) : option (option (N * hiter)) :=
  if exhausted (hnext it) then Some None
  else match advance it with
       | Some it' => Some (Some (hand_of_u64 d (hnext it), it'))
       | None => None
       end.
(* the whole sequence (for small outputs), at most `limit` items *)
Fixpoint hands_take (limit : nat) (d : deck) (it : hiter) : option (list N) :=
  match limit with
  | O => Some []
  | S k => match hand_next d it with
           | None => None
           | Some None => Some []
           | Some (Some (h, it')) => match hands_take k d it' with Some r => Some (h :: r) | None => None end
           end
  end.
(* HandIterator::combinations(): n = 52 - |mask|, k = |next| ; (0..k).fold(1, |x, i| x * (n - i) / (i + 1)) ; usize underflow = None *)
Definition combinations (d : deck) (it : hiter) : option N :=
  (* Hand::from masks with Hand::mask(), the deck of the build; the constant 52 is literal in the source, so in the
     short-deck build the announced size counts 52 - |mask| cards although only 36 - |mask| exist *)
  let msz := hand_size (hand_of_u64 d (hmask it)) in
  let k := hand_size (hand_of_u64 d (hnext it)) in
  if 52 <? msz then None else
  let n := 52 - msz in
  fold_left (fun acc i => match acc with
                          | Some x => if n <? i then None else Some (x * (n - i) / (i + 1))
                          | None => None end) (nseq (N.to_nat k) 0) (Some 1).

(* ---------- ObservationIterator ---------- *)
Record oiter := mkOiter { ostreet : Z; opocket : N; oouter : hiter; oinner : hiter }.
Definition n_observed (s : Z) : N :=
  match nth_error N_OBSERVED (Z.to_nat s) with Some (Some n) => Z.to_N n | _ => 0 end.
Definition start_pocket (d : deck) : N := match d with Standard => 3 | Short => hand_of_u64 Short 196608 end.
Definition obs_iter (d : deck) (s : Z) : option oiter :=
  let pocket := start_pocket d in
  match hand_iter d (n_observed s) pocket, hand_iter d 2 0 with
  | Some inner, Some outer =>
      if (s =? 0)%Z then Some (mkOiter s pocket outer inner)
      else match hand_next d outer with
           | Some (Some (_, outer')) => Some (mkOiter s pocket outer' inner)
           | Some None => Some (mkOiter s pocket outer inner)
           | None => None end
  | _, _ => None
  end.
Definition obs_next (d : deck) (it : oiter) : option (option (obs * oiter)) :=
  match hand_next d (oinner it) with
  | None => None
  | Some (Some (pb, inner')) =>
      match obs_from_parts (opocket it) pb with
      | Some o => Some (Some (o, mkOiter (ostreet it) (opocket it) (oouter it) inner'))
      | None => None end
  | Some None =>
      match hand_next d (oouter it) with
      | None => None
      | Some None => Some None
      | Some (Some (pk, outer')) =>
          if (ostreet it =? 0)%Z then
            match obs_from_parts pk 0 with
            | Some o => Some (Some (o, mkOiter (ostreet it) pk outer' (oinner it)))
            | None => None end
          else
            match hand_iter d (n_observed (ostreet it)) pk with
            | None => None
            | Some inner =>
                match hand_next d inner with
                | None => None
                | Some None => Some None            (* .map on None: iteration ends *)
                | Some (Some (pb, inner')) =>
                    match obs_from_parts pk pb with
                    | Some o => Some (Some (o, mkOiter (ostreet it) pk outer' inner'))
                    | None => None end
                end
            end
      end
  end.
Fixpoint obs_take (limit : nat) (d : deck) (it : oiter) : option (list obs) :=
  match limit with
  | O => Some []
  | S k => match obs_next d it with
           | None => None
           | Some None => Some []
           | Some (Some (o, it')) => match obs_take k d it' with Some r => Some (o :: r) | None => None end
           end
  end.
(* IsomorphismIterator: the canonical observations, in iteration order *)
Definition iso_filter (d : deck) (l : list obs) : list obs := filter (is_canonical d) l.
(* Observation::children: reveal n_revealed cards avoiding the observation's own cards *)
Definition n_revealed_of (s : Z) : option N :=
  match nth_error N_REVEALED (Z.to_nat s) with Some (Some n) => Some (Z.to_N n) | _ => None end.
