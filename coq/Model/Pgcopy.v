(* Model/Pgcopy.v -- executable model of the table files (properties C17, C18):
   save() / load() of src/mccfr/profile.rs (blueprint), src/clustering/metric.rs, lookup.rs,
   transitions.rs and the header/footer of src/save/upload.rs.  A file is a list of bytes; a crash
   during a checkpoint is a prefix of the file.  The layout of every table (field count, order and
   width of the write_* calls, the read_* calls, asserted lengths, the loader's EOF rule) is
   REGENERATED from the source (Gen/GenTables.v).  Field values are raw bit patterns (u64 / f32 bits).
   A BTreeMap is a key-sorted association list; keys are lists of N compared lexicographically.
   No proofs in this file. *)
From Coq Require Import NArith ZArith List Bool.
From RP Require Import Base.Bits Gen.GenTables Model.Codec.
Import ListNotations.
Open Scope N_scope.

Record layout := mkLayout {
  l_nfields : N; l_wlengths : list N; l_wwidths : list N;
  l_seek : N; l_rnfields : N; l_rwidths : list N; l_rasserts : list (option N); l_strict : bool }.
Definition profile_layout := mkLayout PROFILE_NFIELDS PROFILE_WRITER_LENGTHS PROFILE_WRITER_WIDTHS PROFILE_LOADER_SEEK
  PROFILE_LOADER_NFIELDS PROFILE_LOADER_WIDTHS PROFILE_LOADER_ASSERTED_LENGTHS PROFILE_LOADER_EOF_IS_ERROR.
Definition metric_layout := mkLayout METRIC_NFIELDS METRIC_WRITER_LENGTHS METRIC_WRITER_WIDTHS METRIC_LOADER_SEEK
  METRIC_LOADER_NFIELDS METRIC_LOADER_WIDTHS METRIC_LOADER_ASSERTED_LENGTHS METRIC_LOADER_EOF_IS_ERROR.
Definition lookup_layout := mkLayout LOOKUP_NFIELDS LOOKUP_WRITER_LENGTHS LOOKUP_WRITER_WIDTHS LOOKUP_LOADER_SEEK
  LOOKUP_LOADER_NFIELDS LOOKUP_LOADER_WIDTHS LOOKUP_LOADER_ASSERTED_LENGTHS LOOKUP_LOADER_EOF_IS_ERROR.
Definition transitions_layout := mkLayout TRANSITIONS_NFIELDS TRANSITIONS_WRITER_LENGTHS TRANSITIONS_WRITER_WIDTHS TRANSITIONS_LOADER_SEEK
  TRANSITIONS_LOADER_NFIELDS TRANSITIONS_LOADER_WIDTHS TRANSITIONS_LOADER_ASSERTED_LENGTHS TRANSITIONS_LOADER_EOF_IS_ERROR.

(* big-endian bytes *)
Fixpoint be_bytes (w : nat) (v : N) : list N :=
  match w with O => [] | S k => (N.shiftr v (8 * N.of_nat k)) mod 256 :: be_bytes k v end.
Definition be (w : N) (v : N) : list N := be_bytes (N.to_nat w) v.
Definition be_value (bs : list N) : N := fold_left (fun a b => a * 256 + b) bs 0.

(* ---------- writer ---------- *)
Definition row_bytes (L : layout) (vals : list N) : list N :=
  be 2 (l_nfields L)
  ++ concat (map (fun lwv => be 4 (fst (fst lwv)) ++ be (snd (fst lwv)) (snd lwv))
                 (combine (combine (l_wlengths L) (l_wwidths L)) vals)).
Definition save_bytes (L : layout) (rows : list (list N)) : list N :=
  PG_HEADER ++ concat (map (row_bytes L) rows) ++ be 2 PG_FOOTER.

(* ---------- loader ---------- *)
Inductive loadres (A : Type) := LOk (a : A) | LError.
Arguments LOk {A}. Arguments LError {A}.
(* read_exact of n bytes: None on a short read *)
Fixpoint take_nat (n : nat) (bs : list N) : option (list N * list N) :=
  match n with
  | O => Some ([], bs)
  | S k => match bs with
           | [] => None
           | b :: r => match take_nat k r with Some (h, t) => Some (b :: h, t) | None => None end
           end
  end.
Definition take_exact (n : N) (bs : list N) : option (list N * list N) := take_nat (N.to_nat n) bs.
(* the fields of one row: u32 length (asserted or ignored), then a fixed-width value *)
Fixpoint read_fields (ws : list N) (asserts : list (option N)) (bs : list N) : option (list N * list N) :=
  match ws with
  | [] => Some ([], bs)
  | w :: ws' =>
      match take_exact 4 bs with
      | None => None
      | Some (lenb, bs1) =>
          let ok := match asserts with Some a :: _ => be_value lenb =? a | _ => true end in
          if negb ok then None else
          match take_exact w bs1 with
          | None => None
          | Some (vb, bs2) =>
              match read_fields ws' (tl asserts) bs2 with
              | Some (vs, rest) => Some (be_value vb :: vs, rest)
              | None => None
              end
          end
      end
  end.
Fixpoint load_loop (fuel : nat) (L : layout) (bs : list N) (acc : list (list N)) : loadres (list (list N)) :=
  match fuel with
  | O => LError
  | S f =>
      match take_exact 2 bs with
      | None => if l_strict L then LError else LOk (rev acc)       (* short read of the field count *)
      | Some (cnt, bs1) =>
          let c := be_value cnt in
          if c =? l_rnfields L then
            match read_fields (l_rwidths L) (l_rasserts L) bs1 with
            | Some (vs, rest) => load_loop f L rest (vs :: acc)
            | None => LError                                        (* .expect(..) on a short read / failed assert *)
            end
          else if c =? 65535 then LOk (rev acc)
          else LError                                               (* panic!("unexpected number of fields") *)
      end
  end.
(* seek(SeekFrom::Start(19)) never fails; reading past the end is a short read *)
Definition load_rows (L : layout) (bytes : list N) : loadres (list (list N)) :=
  load_loop (S (length bytes)) L (skipn (N.to_nat (l_seek L)) bytes) [].

(* ---------- tables as sorted association lists ---------- *)
Definition kv := (list N * list N)%type.
Fixpoint cmp_key (a b : list N) : comparison :=
  match a, b with
  | [], [] => Eq | [], _ => Lt | _, [] => Gt
  | x :: a', y :: b' => match N.compare x y with Eq => cmp_key a' b' | c => c end
  end.
(* BTreeMap::insert *)
Fixpoint insert_kv (k : list N) (v : list N) (t : list kv) : list kv :=
  match t with
  | [] => [(k, v)]
  | (k', v') :: r => match cmp_key k k' with
                     | Lt => (k, v) :: t | Eq => (k, v) :: r | Gt => (k', v') :: insert_kv k v r end
  end.
Definition build (decode : list N -> option kv) (rows : list (list N)) : loadres (list kv) :=
  fold_left (fun acc row => match acc, decode row with
                            | LOk t, Some (k, v) => LOk (insert_kv k v t)
                            | _, _ => LError end) rows (LOk []).

(* metric: Pair(u64) -> f32 *)
Definition metric_decode (row : list N) : option kv :=
  match row with [p; d] => Some ([p], [d]) | _ => None end.
Definition metric_encode (e : kv) : list N := fst e ++ snd e.
(* lookup: Isomorphism(Observation{pocket, public}) -> Abstraction ; Observation::from(i64) and
   Abstraction::from(i64) panic on codes they cannot decode *)
Definition lookup_decode (row : list N) : option kv :=
  match row with
  | [o; a] => match obs_of_i64 (i64_of_u64 o), abs_of_u64 a with
              | Some ob, Some _ => Some ([pocket ob; public ob], [a])
              | _, _ => None end
  | _ => None end.
Definition lookup_encode (e : kv) : list N :=
  match e with
  | ([pk; pb], [a]) => [u64_of_i64 (obs_to_i64 (mkObs pk pb)); a]
  | _ => [] end.
(* blueprint: (Bucket(Path, Abstraction, Path), Edge) -> (regret, policy);
   derived Ord: Abstraction variants Percent < Learned < Preflop, Edge variants in tag order *)
Definition abs_rank (a : N) : option N :=
  match abs_of_u64 a with
  | Some x => Some (match avariant x with Percent => 0 | Learned => 1 | Preflop => 2 end)
  | None => None end.
Definition i16_key (z : Z) : N := Z.to_N (z + 32768).     (* order-preserving key of an i16 *)
Definition edge_key (e : edge) : list N :=
  match e with
  | EDraw => [0; 0; 0] | EFold => [1; 0; 0] | ECheck => [2; 0; 0] | ECall => [3; 0; 0]
  | ERaise n d => [4; i16_key n; i16_key d] | EShove => [5; 0; 0] end.
Definition profile_decode (row : list N) : option kv :=
  match row with
  | [past; present; future; e; r; p] =>
      match abs_rank present, edge_of_u64 e with
      | Some ar, Some ed => Some ([past; ar; present; future] ++ edge_key ed, [r; p])
      | _, _ => None end
  | _ => None end.
Definition edge_of_key (k : list N) : option edge :=
  match k with
  | [0; _; _] => Some EDraw | [1; _; _] => Some EFold | [2; _; _] => Some ECheck | [3; _; _] => Some ECall
  | [4; n; d] => Some (ERaise (Z.of_N n - 32768) (Z.of_N d - 32768)) | [5; _; _] => Some EShove | _ => None end.
Definition profile_encode (e : kv) : list N :=
  match e with
  | ([past; _; present; future; t; n; d], [r; p]) =>
      match edge_of_key [t; n; d] with
      | Some ed => [past; present; future; edge_to_u64 ed; r; p]
      | None => [] end
  | _ => [] end.

Definition save_metric (t : list kv) : list N := save_bytes metric_layout (map metric_encode t).
Definition save_lookup (t : list kv) : list N := save_bytes lookup_layout (map lookup_encode t).
Definition save_profile (t : list kv) : list N := save_bytes profile_layout (map profile_encode t).
Definition load_with (L : layout) (decode : list N -> option kv) (bytes : list N) : loadres (list kv) :=
  match load_rows L bytes with LOk rows => build decode rows | LError => LError end.
Definition load_metric := load_with metric_layout metric_decode.
Definition load_lookup := load_with lookup_layout lookup_decode.
Definition load_profile := load_with profile_layout profile_decode.
(* transitions: the loader re-quantises weights; the rows as parsed are all the theorems need *)
Definition load_transitions_rows (bytes : list N) := load_rows transitions_layout bytes.
