(* Model/Discount.v -- executable model over Q (exact rationals) of the training-time bookkeeping of
   one information set (property C19): Memory::add_regret / add_policy (acc := acc * discount + value),
   Discount::policy (t / (t+1))^gamma, the phase switch, Profile::next and Profile::walker.
   The regret discount factor x/(x+1), x = t^alpha or t^omega, involves powf with non-integral
   exponents (libm, not modelled): the model takes the factors actually used as an input sequence
   and the theorems state what they need of them (0 < d <= 1, d = 1 outside the discount phase).
   No proofs in this file. *)
From Coq Require Import ZArith QArith List Bool.
From RP Require Import Gen.GenLib Gen.GenDiscount.
Import ListNotations.
Open Scope Q_scope.

Definition accumulate (acc d v : Q) : Q := acc * d + v.                 (* Memory::add_* *)
(* Discount::policy(t) for an integral gamma *)
Definition gamma_int : Z := Qnum DISCOUNT_GAMMA / Zpos (Qden DISCOUNT_GAMMA).
Definition gamma_is_integral : bool := (Qnum DISCOUNT_GAMMA =? gamma_int * Zpos (Qden DISCOUNT_GAMMA))%Z.
Definition policy_discount (t : Z) : Q := Qpower (inject_Z t / inject_Z (t + 1)) gamma_int.
(* stored policy after epochs t0, t0+1, ... with per-epoch strategies ps, starting from `acc` *)
Fixpoint policy_run (t : Z) (acc : Q) (ps : list Q) : Q :=
  match ps with [] => acc | p :: r => policy_run (t + 1) (accumulate acc (policy_discount t) p) r end.
(* stored regret with the discount factors actually applied *)
Fixpoint regret_run (acc : Q) (drs : list (Q * Q)) : Q :=
  match drs with [] => acc | (d, r) :: rest => regret_run (accumulate acc d r) rest end.
(* phase: discounting applies while t < CFR_DISCOUNT_PHASE *)
Definition in_discount_phase (t : Z) : bool := (t <? CFR_DISCOUNT_PHASE)%Z.
(* walker after k calls of next(): iterations mod 2 *)
Definition walker (k : Z) : Z := (k mod 2)%Z.

(* ---------- closed forms (the specification side) ---------- *)
Definition weight_policy (s T : Z) : Q := Qpower (inject_Z (s + 1) / inject_Z (T + 1)) gamma_int.
Fixpoint sum_policy (s T : Z) (ps : list Q) : Q :=
  match ps with [] => 0 | p :: r => p * weight_policy s T + sum_policy (s + 1) T r end.
Fixpoint prodQ (l : list Q) : Q := match l with [] => 1 | x :: r => x * prodQ r end.
(* weight of the s-th input in the final regret: product of the later factors *)
Fixpoint sum_regret (drs : list (Q * Q)) : Q :=
  match drs with [] => 0 | (d, r) :: rest => r * prodQ (map fst rest) + sum_regret rest end.
