(* Model/Equity.v -- executable model of river equity and the turn histogram (property C07):
   Observation::equity (src/cards/observation.rs): hero's strength against every two-card holding
   drawn from the unseen cards, wins / (wins + losses), 1/2 when every holding ties;
   Histogram::from(turn observation) (src/clustering/histogram.rs): the multiset of the buckets of
   the 46 river successors.  The villain holdings are enumerated with the specification enumerator
   of C06 (proved equal to the HandIterator).  The binary32 division and the rounding to a bucket
   index are a function of the two counts only; they are emulated exactly in the replay glue and
   enter the model as the parameter `bucket_of`.  No proofs in this file. *)
From Coq Require Import NArith ZArith QArith List Bool.
From RP Require Import Base.Bits Model.Codec Model.Evaluator Spec.SpecCombs.
Import ListNotations.
Open Scope N_scope.

(* (wins, decided) of a river observation *)
Definition equity_counts (d : deck) (o : obs) : option (N * N) :=
  match hand_add (pocket o) (public o) with
  | None => None
  | Some hand =>
      match strength_of d hand with
      | None => None
      | Some hero =>
          fold_left (fun acc v =>
                       match acc, hand_add (public o) v with
                       | Some (w, n), Some vh =>
                           match strength_of d vh with
                           | Some vs => match cmp_strength d hero vs with
                                        | Gt => Some (w + 1, n + 1) | Lt => Some (w, n + 1) | Eq => Some (w, n) end
                           | None => None end
                       | _, _ => None end)
                    (spec_hands d 2 hand) (Some (0, 0))
      end
  end.
Definition equity_Q (wn : N * N) : Q :=
  if snd wn =? 0 then (1 # 2)%Q else (Z.of_N (fst wn) # Pos.of_nat (N.to_nat (snd wn)))%Q.

(* the turn histogram: bucket of every river successor, as a key-sorted count list *)
Fixpoint bump (k : N) (h : list (N * N)) : list (N * N) :=
  match h with
  | [] => [(k, 1)]
  | (k', c) :: r => if k <? k' then (k, 1) :: h else if k =? k' then (k', c + 1) :: r else (k', c) :: bump k r
  end.
Definition turn_histogram (bucket_of : N * N -> N) (d : deck) (o : obs) : option (list (N * N)) :=
  match hand_add (pocket o) (public o) with
  | None => None
  | Some seen =>
      fold_left (fun acc c =>
                   match acc, hand_add (public o) c with
                   | Some h, Some pb => match equity_counts d (mkObs (pocket o) pb) with
                                        | Some wn => Some (bump (bucket_of wn) h) | None => None end
                   | _, _ => None end)
                (spec_hands d 1 seen) (Some [])
  end.
