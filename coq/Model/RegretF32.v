(* Model/RegretF32.v -- the binary32 tail of Profile::regret_vector and the binary32 accumulation of
   Memory::add_regret (src/mccfr/profile.rs, src/mccfr/memory.rs, src/lib.rs), modelled bit-exactly
   with Flocq like Model/PolicyF32.v (binary32 = binary_float 24 128, round to nearest even):

     regret_vector:   r = immediate_regret(..)                  any binary32 value
                      r = r.max(REGRET_MIN)                     REGRET_MIN = -3e5
                      r = r.min(REGRET_MAX)                     REGRET_MAX = f32::MAX
                      assert!(!r.is_nan()); assert!(!r.is_infinite())
     Memory::add_regret(discount, value):   self.regret *= discount; self.regret += value;
                      (two rounded binary32 operations, no clamp)

   f32::max / f32::min have IEEE maxNum / minNum semantics: if one operand is NaN the other is
   returned (fmax32 is in Model/PolicyF32.v).  For operands that compare equal the first is returned.
   Definitions only.  Not extracted. *)
From Coq Require Import ZArith List Bool.
From Flocq Require Import IEEE754.BinarySingleNaN Core.Zaux.
From RP Require Import Gen.GenLib Model.BetF32 Model.PolicyF32.
Import ListNotations.
Open Scope Z_scope.

(* f32::min *)
Definition fmin32 (a b : f32) : f32 :=
  match a, b with
  | B754_nan, _ => b
  | _, B754_nan => a
  | _, _ => match Bcompare a b with Some Gt => b | _ => a end
  end.

(* REGRET_MIN = -3e5 = -300000 = -(9600000 * 2^-5), exactly representable (9600000 < 2^24) *)
Definition regret_min : f32 := @B754_finite prec emax true 9600000 (-5) eq_refl.
(* REGRET_MAX = f32::MAX = (2^24 - 1) * 2^104, the largest finite binary32 number *)
Definition regret_max : f32 := @B754_finite prec emax false 16777215 104 eq_refl.

Definition clamp32 (x : f32) : f32 := fmin32 (fmax32 x regret_min) regret_max.

Definition is_inf32 (x : f32) : bool := match x with B754_infinity _ => true | _ => false end.
(* true iff one of the two assertions at the end of regret_vector fires on the entry computed from
   the immediate regret x, i.e. the process aborts *)
Definition regret_asserts_fire (x : f32) : bool :=
  let r := clamp32 x in is_nan r || is_inf32 r.

(* Memory::add_regret, and the stored regret after the updates dvs = [(discount, value); ...] *)
Definition accumulate32 (acc d v : f32) : f32 := fadd (fmul acc d) v.
Fixpoint regret_run32 (acc : f32) (dvs : list (f32 * f32)) : f32 :=
  match dvs with [] => acc | (d, v) :: rest => regret_run32 (accumulate32 acc d v) rest end.
