(* Model/Cfr.v -- executable model over exact rationals of the regret computation of
   src/mccfr/profile.rs (property C08): reach, external_reach, profiled_reach, relative_reach
   (stopping at the head node, or -- original code -- at any node sharing its bucket), terminal_value, expected_value, cfactual_value, gain,
   immediate_regret, the clamps of regret_vector -- on a sampled tree given as a rose tree.
   Every edge carries sigma = reach(parent, edge): the profile's normalised weight of the edge at the
   parent's bucket, or 1 below a chance node.  Which estimator shape the code has (original / repaired)
   is read from the source (Gen/GenFixes.CFR_ESTIMATOR_EXTERNAL); the other functions are pinned
   textually by the translator.  No proofs in this file. *)
From Coq Require Import ZArith NArith QArith List Bool.
From RP Require Import Gen.GenLib Gen.GenFixes.
Import ListNotations.

Inductive kind := KWalker | KOpponent | KChance.

(* The arithmetic is a parameter: the theorems are about the instance over exact rationals (Q, below);
   the per-run replay of large sampled trees instantiates the same definitions with double-precision
   floats (exact rational sums of thousands of products of binary32 values are too slow to be useful). *)
Section Arith.
Variable F : Type.
Variables (f0 f1 : F) (fadd fsub fmul fdiv : F -> F -> F) (fle : F -> F -> bool).
Local Notation "0" := f0. Local Notation "1" := f1.
Local Infix "+" := fadd. Local Infix "-" := fsub. Local Infix "*" := fmul. Local Infix "/" := fdiv.

(* node: who acts (irrelevant at leaves), bucket id, payoff of the traverser (meaningful at leaves),
   children: (edge code, sigma of the edge, subtree) *)
Inductive tree := T (k : kind) (b : N) (payoff : F) (ch : list (N * F * tree)).
Definition kind_of (t : tree) := match t with T k _ _ _ => k end.
Definition bucket_of (t : tree) := match t with T _ b _ _ => b end.
Definition children_of (t : tree) := match t with T _ _ _ ch => ch end.

(* leaves below t as seen from a head with bucket hb: (payoff, relative_reach(head, leaf), external reach
   accumulated below the head).  relative_reach restarts at every node whose bucket equals hb. *)
Fixpoint leaves_below (hb : N) (t : tree) (rel ext : F) : list (F * F * F) :=
  match t with
  | T k b p ch =>
      (* original code: the walk up from a leaf stops at the first node whose BUCKET equals the head's, so the
         product restarts at every such node below the head; repaired: it stops at the head node itself *)
      let rel' := if RELATIVE_REACH_STOPS_AT_NODE then rel else if N.eqb b hb then 1 else rel in
      match ch with
      | [] => [(p, rel', ext)]
      | _ => flat_map (fun est => let '(e, s, c) := est in
                                  leaves_below hb c (rel' * s) (match k with KWalker => ext | _ => ext * s end)) ch
      end
  end.
(* sum over leaves of payoff * relative / external_reach(leaf), external_reach(leaf) = ext_head * ext_below *)
Definition leaf_sum (ext_head : F) (ls : list (F * F * F)) : F :=
  fold_left (fun acc x => let '(p, rel, extb) := x in acc + p * rel / (ext_head * extb)) ls 0.
(* expected_value(head): external (repaired) or profiled (original) reach of the head times the leaf sum *)
Definition expected_value (ext_head prof_head : F) (head : tree) : F :=
  (if CFR_ESTIMATOR_EXTERNAL then ext_head else prof_head)
  * leaf_sum ext_head (leaves_below (bucket_of head) head 1 1).
(* cfactual_value(head, edge) *)
Definition cfactual_value (ext_head : F) (head : tree) (s : F) (tail : tree) : F :=
  if CFR_ESTIMATOR_EXTERNAL
  then (* external_reach(tail) * sum over leaves below tail of payoff * relative_reach(tail, leaf) / external_reach(leaf) *)
       ext_head * leaf_sum ext_head (leaves_below (bucket_of tail) tail 1 1)
  else (* external_reach(head) * sum over leaves below tail of terminal_value(head, leaf) *)
       ext_head * leaf_sum ext_head
                    (leaves_below (bucket_of head) tail s 1).
Definition gain (ext_head prof_head : F) (head : tree) (s : F) (tail : tree) : F :=
  cfactual_value ext_head head s tail - expected_value ext_head prof_head head.

(* all (bucket, edge, gain) triples of the traverser's internal nodes, walking the tree with the reaches *)
Fixpoint gains (fuel : nat) (t : tree) (ext prof : F) : list (N * N * F) :=
  match fuel with
  | O => []
  | S f =>
      match t with
      | T k b p ch =>
          (match k, ch with
           | KWalker, _ :: _ => map (fun est => let '(e, s, c) := est in (b, e, gain ext prof t s c)) ch
           | _, _ => [] end)
          ++ flat_map (fun est => let '(e, s, c) := est in
                                  gains f c (match k with KWalker => ext | _ => ext * s end) (prof * s)) ch
      end
  end.
Fixpoint depth (t : tree) : nat :=
  match t with T _ _ _ ch => S (fold_left (fun a est => Nat.max a (depth (snd est))) ch O) end.
(* immediate_regret(infoset, edge) = sum of the gains of the infoset's nodes *)
Definition sum_gains (l : list (N * N * F)) (b e : N) : F :=
  fold_left (fun acc x => let '(b', e', g) := x in if N.eqb b b' && N.eqb e e' then acc + g else acc) l 0.
Definition immediate_regrets (t : tree) : list (N * N * F) := gains (depth t) t 1 1.
(* regret_vector clamps to [REGRET_MIN, REGRET_MAX] (REGRET_MAX = f32::MAX: never binding on finite values) *)
Definition clamp_regret (regret_min r : F) : F := if fle r regret_min then regret_min else r.

(* ---------- the external-sampling estimator (specification, written from the property text) ---------- *)
(* sampled counterfactual value of a node: terminal payoffs below it weighted only by the traverser's
   own later action probabilities *)
Fixpoint utilde (fuel : nat) (t : tree) : F :=
  match fuel with
  | O => 0
  | S f =>
      match t with
      | T k b p ch =>
          match ch with
          | [] => p
          | _ => fold_left (fun acc est => let '(e, s, c) := est in
                                           acc + (match k with KWalker => s | _ => 1 end) * utilde f c) ch 0
          end
      end
  end.
Fixpoint regrets_spec (fuel : nat) (t : tree) : list (N * N * F) :=
  match fuel with
  | O => []
  | S f =>
      match t with
      | T k b p ch =>
          (match k, ch with
           | KWalker, _ :: _ =>
               let v := fold_left (fun acc est => let '(e, s, c) := est in acc + s * utilde f c) ch 0 in
               map (fun est => let '(e, s, c) := est in (b, e, utilde f c - v)) ch
           | _, _ => [] end)
          ++ flat_map (fun est => regrets_spec f (snd est)) ch
      end
  end.
Definition regret_estimator (t : tree) : list (N * N * F) := regrets_spec (depth t) t.
End Arith.
Arguments T {F}. Arguments kind_of {F}. Arguments bucket_of {F}. Arguments children_of {F}. Arguments depth {F}.

(* the instance the theorems are about *)
Definition qtree := tree Q.
Definition immediate_regrets_Q : qtree -> list (N * N * Q) := immediate_regrets Q 0%Q 1%Q Qplus Qminus Qmult Qdiv.
Definition regret_estimator_Q : qtree -> list (N * N * Q) := regret_estimator Q 0%Q 1%Q Qplus Qminus Qmult.
Definition regret_min_Q : Q := match REGRET_MIN with FQ q => q | _ => 0%Q end.
