(* Model/RegretMatching.v -- executable model of Profile::policy_vector / cumulated_regret
   (src/mccfr/profile.rs, property C09), parametric in the arithmetic (the theorems are about the
   instance over exact rationals; the per-run replay also instantiates it with floats).
   cumulated regret = stored regret / epochs (the divisor is at least 1 in the repaired code: flag
   REGRET_DIVISOR_AT_LEAST_ONE regenerated from the source); each is floored at POLICY_MIN > 0;
   the policy is the floored value over the sum; the two assertions 0 <= p <= 1 abort otherwise.
   With the original divisor and epochs = 0 (a freshly loaded profile) positive regrets become
   inf, inf / inf = NaN and the assertion aborts: modelled as None.  No proofs in this file. *)
From Coq Require Import ZArith QArith List Bool.
From RP Require Import Gen.GenLib Gen.GenFixes.
Import ListNotations.

Section Arith.
Variable F : Type.
Variables (f0 : F) (fadd fdiv : F -> F -> F) (fle flt : F -> F -> bool) (of_Z : Z -> F).
Definition fmax (a b : F) : F := if fle a b then b else a.
Definition fsum (l : list F) : F := fold_left fadd l f0.
(* policy_vector: epochs t, stored regrets (in edge order), the floor eps = POLICY_MIN *)
Definition policy_vector (eps : F) (t : Z) (regrets : list F) : option (list F) :=
  let divisor := if REGRET_DIVISOR_AT_LEAST_ONE then Z.max t 1 else t in
  if (divisor =? 0)%Z then
    (* x / 0.0 : +inf for x > 0 (then inf / inf = NaN: abort), NaN or -inf otherwise (floored to eps) *)
    if existsb (fun r => flt f0 r) regrets then None
    else let fl := map (fun _ => eps) regrets in Some (map (fun r => fdiv r (fsum fl)) fl)
  else
    let fl := map (fun r => fmax (fdiv r (of_Z divisor)) eps) regrets in
    let s := fsum fl in
    let p := map (fun r => fdiv r s) fl in
    if forallb (fun x => fle f0 x && fle x (of_Z 1)) p then Some p else None.
End Arith.

Definition policy_vector_Q : Q -> Z -> list Q -> option (list Q) :=
  policy_vector Q 0%Q Qplus Qdiv Qle_bool (fun a b => Qle_bool a b && negb (Qeq_bool a b)) inject_Z.
(* regret matching proper: positive parts over their sum, uniform when none is positive *)
Definition qpos (r : Q) : Q := if Qle_bool r 0 then 0%Q else r.
Definition regret_matching (regrets : list Q) : list Q :=
  let s := fold_left Qplus (map qpos regrets) 0%Q in
  if Qle_bool s 0 then map (fun _ => (1 # Pos.of_nat (length regrets))%Q) regrets
  else map (fun r => (qpos r / s)%Q) regrets.
