(* Model/PolicyF32.v -- the binary32 computation of Profile::policy_vector / cumulated_regret
   (src/mccfr/profile.rs), modelled bit-exactly with Flocq (IEEE 754 binary32 = binary_float 24 128,
   round to nearest even, with infinities, NaN, signed zeros and subnormals):

     cumulated_regret = stored / (epochs.max(1) as f32)              epochs : usize
     regrets  = for each action, in edge order: cumulated_regret.max(POLICY_MIN)
     sum      = regrets.values().sum::<f32>()        left-to-right binary32 additions from 0.0
     policy   = for each: r / sum ; assert!(p >= 0.) ; assert!(p <= 1.)

   The exact-arithmetic model of the same function is Model/RegretMatching.v.  The flag
   REGRET_DIVISOR_AT_LEAST_ONE (Gen/GenFixes.v, regenerated from the source) says whether the divisor
   is epochs.max(1) (repaired code) or epochs (original code); the `_gen` definitions take the flag
   as a parameter so that both variants can be talked about.
   Definitions only.  Not extracted. *)
From Coq Require Import ZArith List Bool.
From Flocq Require Import IEEE754.BinarySingleNaN Core.Zaux.
From RP Require Import Gen.GenLib Gen.GenFixes Model.BetF32.
Import ListNotations.
Open Scope Z_scope.

(* f32, prec = 24, emax = 128, Hprec, Hmax and fdiv (binary32 division, nearest even) come from
   Model/BetF32.v *)

(* `x as f32` for an integer (usize): rounding to nearest even *)
Definition of_usize (t : Z) : f32 := binary_normalize prec emax Hprec Hmax mode_NE t 0 false.
(* binary32 addition, round to nearest even *)
Definition fadd (a b : f32) : f32 := @Bplus prec emax Hprec Hmax mode_NE a b.

(* self.epochs().max(1) in the repaired code, self.epochs() in the original *)
Definition divisor_gen (flag : bool) (t : Z) : Z := if flag then Z.max t 1 else t.
Definition divisor (t : Z) : Z := divisor_gen REGRET_DIVISOR_AT_LEAST_ONE t.

(* f32::max (IEEE maxNum): if one operand is NaN the other is returned; otherwise the larger one.
   For operands that compare equal (+0 / -0 included) the first is returned; the standard leaves
   that case open, and it never matters against POLICY_MIN > 0. *)
Definition fmax32 (a b : f32) : f32 :=
  match a, b with
  | B754_nan, _ => b
  | _, B754_nan => a
  | _, _ => match Bcompare a b with Some Lt => b | _ => a end
  end.

(* POLICY_MIN = f32::MIN_POSITIVE = 2^-126 = 2^23 * 2^-149, the smallest positive normal number *)
Definition policy_min : f32 := @B754_finite prec emax false 8388608 (-149) eq_refl.
(* the literals 0. and 1. of the assertions *)
Definition f32_zero : f32 := B754_zero false.
Definition f32_one : f32 := @B754_finite prec emax false 8388608 (-23) eq_refl.
Definition pos_inf : f32 := B754_infinity false.

(* Iterator::sum::<f32>: sequential additions from 0.0 *)
Definition fsum32 (l : list f32) : f32 := fold_left fadd l f32_zero.

(* IEEE comparisons `a >= b` and `a <= b`: false when unordered (a NaN operand) *)
Definition fge32 (a b : f32) : bool :=
  match Bcompare a b with Some Gt | Some Eq => true | _ => false end.
Definition fle32 (a b : f32) : bool :=
  match Bcompare a b with Some Lt | Some Eq => true | _ => false end.

(* the second half of policy_vector, on the vector of cumulated regrets *)
Definition floored32 (c : f32) : f32 := fmax32 c policy_min.
Definition normalise32 (cs : list f32) : list f32 :=
  let fl := map floored32 cs in
  let s := fsum32 fl in
  map (fun r => fdiv r s) fl.
(* the two assertions on one entry: p >= 0. and p <= 1. *)
Definition entry_ok (p : f32) : bool := fge32 p f32_zero && fle32 p f32_one.

(* cumulated_regret and policy_vector; t = epochs, stored = the stored regrets in edge order *)
Definition cumulated_gen (flag : bool) (t : Z) (r : f32) : f32 := fdiv r (of_usize (divisor_gen flag t)).
Definition policy_f32_gen (flag : bool) (t : Z) (stored : list f32) : list f32 :=
  normalise32 (map (cumulated_gen flag t) stored).
(* true iff one of the assertions fires, i.e. the process aborts *)
Definition policy_aborts_gen (flag : bool) (t : Z) (stored : list f32) : bool :=
  existsb (fun p => negb (entry_ok p)) (policy_f32_gen flag t stored).

(* the code as it is (generated flag) *)
Definition policy_f32 (t : Z) (stored : list f32) : list f32 :=
  policy_f32_gen REGRET_DIVISOR_AT_LEAST_ONE t stored.
Definition policy_aborts (t : Z) (stored : list f32) : bool :=
  policy_aborts_gen REGRET_DIVISOR_AT_LEAST_ONE t stored.
