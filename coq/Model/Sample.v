(* Model/Sample.v -- executable model of the construction of one sampled tree (property C10):
   src/mccfr/blueprint.rs (Blueprint::tree, sample, touch_any / touch_one / touch_all),
   src/mccfr/encoder.rs (Encoder::branches), src/mccfr/node.rs (Node::realize, Node::branches),
   src/mccfr/tree.rs (plant, fork), src/mccfr/profile.rs (explore_all / explore_any / explore_one,
   witness), src/mccfr/partition.rs (Partition::from(Tree)).

   What the code takes from outside is a parameter here:
     abs  : game -> N                 the card abstraction the encoder looks up for a game state,
     pick : list edge -> nat -> nat   the index the seeded PRNG of Profile::rng produces at the node
                                      with this history when n branches are offered (gen_range(0..n),
                                      WeightedIndex::sample); reduced mod n, so every oracle is
                                      admissible and every in-range index is the value of some oracle,
     deal : game -> list edge -> N    the cards Game::draw() deals at a chance node.
   A Rust panic / failed assertion is `None`; so is running out of fuel.
   The work list of Blueprint::tree (a stack of pending branches) is replaced by recursion on the
   children: the set of nodes, their parents, edges, histories and buckets are the same, only the
   order in which petgraph numbers the nodes differs (Model: pre-order).
   Node = (game state, edge history from the root, bucket); a bucket is
   Bucket(Path, Abstraction, Path) with both paths packed into a u64 as in the code
   (Model.Tree.bucket_paths).  No proofs in this file. *)
From Coq Require Import ZArith NArith List Bool QArith.
From RP Require Import Base.Bits Gen.GenLib Gen.GenFixes Model.Codec Model.Showdown Model.Game Model.Tree.
Import ListNotations.
Open Scope Z_scope.

(* ---------- buckets, nodes, trees ---------- *)
Definition bucket : Type := (N * N * N)%type.          (* (recalled history, abstraction, menu) *)
Definition b_past (b : bucket) : N := fst (fst b).
Definition b_abs (b : bucket) : N := snd (fst b).
Definition b_menu (b : bucket) : N := snd b.
Definition bucket_eqb (a b : bucket) : bool :=
  N.eqb (b_past a) (b_past b) && N.eqb (b_abs a) (b_abs b) && N.eqb (b_menu a) (b_menu b).

Record node := mkNode { n_game : game; n_history : list edge; n_bucket : bucket }.
Inductive stree := SNode (n : node) (cs : list (edge * stree)).
Definition root_node (t : stree) : node := match t with SNode n _ => n end.
Definition kids (t : stree) : list (edge * stree) := match t with SNode _ cs => cs end.
(* Tree::all: every node, given as the subtree hanging from it (pre-order) *)
Fixpoint subtrees (t : stree) : list stree :=
  match t with
  | SNode _ cs =>
      t :: (fix go (l : list (edge * stree)) : list stree :=
              match l with [] => [] | (_, c) :: r => subtrees c ++ go r end) cs
  end.
Definition nodes (t : stree) : list node := map root_node (subtrees t).

Definition sedge_eqb (a b : edge) : bool :=
  match a, b with
  | EDraw, EDraw | EFold, EFold | ECheck, ECheck | ECall, ECall | EShove, EShove => true
  | ERaise a1 a2, ERaise b1 b2 => (a1 =? b1) && (a2 =? b2)
  | _, _ => false
  end.
Fixpoint sedges_eqb (l1 l2 : list edge) : bool :=
  match l1, l2 with
  | [], [] => true
  | a :: r1, b :: r2 => sedge_eqb a b && sedges_eqb r1 r2
  | _, _ => false
  end.

Section Sampler.
Variable d : deck.
Variable abs : game -> N.
Variable pick : list edge -> nat -> nat.
Variable deal : game -> list edge -> N.

(* Node::realize at Tree::plant / Tree::fork: (Path::from(recall), abstraction, choices) *)
Definition realize (g : game) (h : list edge) : option bucket :=
  match bucket_paths g h with
  | Some (p, f) => Some (p, abs g, f)
  | None => None
  end.

(* Node::branches / Encoder::branches: the edges unpacked from the bucket's menu path, each
   turned into an action (Game::actionize; Draw takes the dealt cards) and applied (Game::apply
   asserts that the action is allowed) *)
Definition branches (g : game) (h : list edge) (b : bucket) : option (list (edge * game)) :=
  match path_unpack (b_menu b) with
  | Some m =>
      opt_map_all (fun e => match child_game d g e (deal g h) with
                            | Some g' => Some (e, g') | None => None end) m
  | None => None
  end.

(* Profile::explore_all / explore_any / explore_one with their assertions *)
Definition explore_idx (h : list edge) (n : nat) : nat := Nat.modulo (pick h n) n.
Definition explore_all (bs : list (edge * game)) : option (list (edge * game)) :=
  if forallb (fun b => is_choice (fst b)) bs then Some bs else None.
Definition explore_any (h : list edge) (bs : list (edge * game)) : option (list (edge * game)) :=
  match nth_error bs (explore_idx h (length bs)) with
  | Some b => if is_choice (fst b) then None else Some [b]
  | None => None
  end.
Definition explore_one (h : list edge) (bs : list (edge * game)) : option (list (edge * game)) :=
  match nth_error bs (explore_idx h (length bs)) with
  | Some b => if is_choice (fst b) then Some [b] else None
  | None => None
  end.

(* Blueprint::sample: (0, _) => none; chance => any; p != walker => one; p == walker => all *)
Definition sample (walker : Z) (g : game) (h : list edge) (bs : list (edge * game))
  : option (list (edge * game)) :=
  match bs with
  | [] => Some []
  | _ =>
      match who_acts g walker with
      | WChance => explore_any h bs
      | WTraverser => explore_all bs
      | WOpponent | WNobody => explore_one h bs
      end
  end.

(* Blueprint::tree from the node (g, h): realize its bucket, sample its branches, fork each kept
   branch and continue below it *)
Fixpoint grow (fuel : nat) (walker : Z) (g : game) (h : list edge) : option stree :=
  match fuel with
  | O => None
  | S f =>
      match realize g h with
      | None => None
      | Some b =>
          match branches g h b with
          | None => None
          | Some bs =>
              match sample walker g h bs with
              | None => None
              | Some kept =>
                  match opt_map_all (fun eg => match grow f walker (snd eg) (h ++ [fst eg]) with
                                               | Some t => Some (fst eg, t) | None => None end) kept with
                  | Some cs => Some (SNode (mkNode g h b) cs)
                  | None => None
                  end
              end
          end
      end
  end.
End Sampler.

(* ---------- Partition::from(Tree) ----------
   the nodes with at least one child whose player is the traverser, grouped by bucket; every group
   keeps its nodes in the order of Tree::all.  (The BTreeMap of the code lists the groups in the
   order of their keys; here they come in the order in which their first node is met.) *)
Definition is_infoset_node (walker : Z) (t : stree) : bool :=
  match kids t with
  | [] => false
  | _ => match who_acts (n_game (root_node t)) walker with WTraverser => true | _ => false end
  end.
Fixpoint add_info (b : bucket) (n : node) (m : list (bucket * list node)) : list (bucket * list node) :=
  match m with
  | [] => [(b, [n])]
  | (b', ns) :: r => if bucket_eqb b b' then (b', ns ++ [n]) :: r else (b', ns) :: add_info b n r
  end.
Definition infosets (walker : Z) (t : stree) : list (bucket * list node) :=
  fold_left (fun m s => add_info (n_bucket (root_node s)) (root_node s) m)
            (filter (is_infoset_node walker) (subtrees t)) [].

(* ---------- Profile::witness ----------
   a profile: bucket -> (edge -> policy weight); the regrets (all 0.0 at initialisation) are left out.
   witness asserts that the offered branches are the bucket's menu; a known bucket is left alone,
   a new one gets 1 / n on each of the n offered edges (n = 0 adds nothing: the loop body never runs).
   The code stores 1. / n as f32; the model keeps the rational 1 / n. *)
Definition strategy : Type := list (edge * Q).
Definition profile : Type := list (bucket * strategy).
Fixpoint lookup (b : bucket) (p : profile) : option strategy :=
  match p with
  | [] => None
  | (b', s) :: r => if bucket_eqb b b' then Some s else lookup b r
  end.
Fixpoint weight_of (e : edge) (s : strategy) : option Q :=
  match s with
  | [] => None
  | (e', w) :: r => if sedge_eqb e e' then Some w else weight_of e r
  end.
Definition uniform_strategy (es : list edge) : strategy :=
  map (fun e => (e, 1 # Pos.of_nat (length es))%Q) es.
Definition witness (p : profile) (b : bucket) (es : list edge) : option profile :=
  match path_unpack (b_menu b) with
  | Some m =>
      if sedges_eqb m es then
        match lookup b p with
        | Some _ => Some p
        | None => match es with [] => Some p | _ => Some ((b, uniform_strategy es) :: p) end
        end
      else None
  | None => None
  end.

(* touch_one / touch_all call witness at every node that has branches and is not a chance node;
   the offered branches carry the edges of the bucket's menu.  witness_tree replays these calls
   over a finished tree in the order of Tree::all. *)
Definition is_witnessed (walker : Z) (t : stree) : bool :=
  match kids t with
  | [] => false
  | _ => match who_acts (n_game (root_node t)) walker with WChance => false | _ => true end
  end.
Definition witness_node (op : option profile) (t : stree) : option profile :=
  match op with
  | None => None
  | Some p =>
      match path_unpack (b_menu (n_bucket (root_node t))) with
      | Some m => witness p (n_bucket (root_node t)) m
      | None => None
      end
  end.
Definition witness_tree (walker : Z) (p : profile) (t : stree) : option profile :=
  fold_left witness_node (filter (is_witnessed walker) (subtrees t)) (Some p).
