(* Model/Tree.v -- executable model of how a sampled tree node is built (property C10):
   src/mccfr/node.rs (history, recall, subgame, choices, realize, branches), src/mccfr/tree.rs
   (plant, fork), src/mccfr/blueprint.rs (tree, sample: which branches are kept), the uniform
   initialisation of Profile::witness.  A node is described by its edge history from the root and
   its game state; the card abstraction and the sampler's picks are inputs.
   Whether Node::subgame walks the history from the node backwards (repaired) or from the root
   (original) is read from the source (Gen/GenFixes.SUBGAME_FROM_NODE).  No proofs in this file. *)
From Coq Require Import ZArith NArith List Bool.
From RP Require Import Base.Bits Gen.GenLib Gen.GenFixes Model.Codec Model.Showdown Model.Game.
Import ListNotations.
Open Scope Z_scope.

Definition is_choice (e : edge) : bool := match e with EDraw => false | _ => true end.
Definition is_aggro (e : edge) : bool := match e with ERaise _ _ | EShove => true | _ => false end.
Fixpoint take_while {A} (f : A -> bool) (l : list A) : list A :=
  match l with [] => [] | x :: r => if f x then x :: take_while f r else [] end.
Definition depth_cap : nat := Z.to_nat MAX_DEPTH_SUBGAME.
(* Node::recall: the first MAX_DEPTH_SUBGAME edges of the history *)
Definition recall (history : list edge) : list edge := firstn depth_cap history.
(* Node::subgame: the choice edges of the current betting round (at most MAX_DEPTH_SUBGAME of them) *)
Definition subgame (history : list edge) : list edge :=
  firstn depth_cap (take_while is_choice (if SUBGAME_FROM_NODE then rev history else history)).
Definition n_raises (history : list edge) : Z := Z.of_nat (length (filter is_aggro (subgame history))).
(* Node::choices / realize: the bucket's three components *)
Definition node_menu (g : game) (history : list edge) : option (list edge) := choices g (n_raises history).
Definition bucket_paths (g : game) (history : list edge) : option (N * N) :=
  match node_menu g history with
  | Some m => match path_pack (recall history), path_pack m with
              | Some p, Some f => Some (p, f) | _, _ => None end
  | None => None
  end.
(* Node::branches for a non-chance edge: (edge, child game); Draw children carry the dealt cards *)
Definition child_game (d : deck) (g : game) (e : edge) (dealt : N) : option game :=
  match e with
  | EDraw => apply d g (Draw dealt)
  | _ => apply d g (actionize g e)
  end.
(* which branches the sampler keeps: all of the traverser's, one otherwise *)
Inductive who := WTraverser | WOpponent | WChance | WNobody.
Definition who_acts (g : game) (walker : Z) : who :=
  match turn_of g with
  | Terminal => WNobody | Chance => WChance
  | Choice i => if i =? walker then WTraverser else WOpponent
  end.
(* raises (aggressive edges) per betting round along a history: the largest count in any round *)
Fixpoint max_raises_aux (history : list edge) (cur best : Z) : Z :=
  match history with
  | [] => Z.max cur best
  | EDraw :: r => max_raises_aux r 0 (Z.max cur best)
  | e :: r => max_raises_aux r (if is_aggro e then cur + 1 else cur) best
  end.
Definition max_raises_per_round (history : list edge) : Z := max_raises_aux history 0 0.
