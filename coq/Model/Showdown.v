(* Model/Showdown.v -- executable model of src/gameplay/showdown.rs (property C04) and
   src/gameplay/settlement.rs.  Any number of players; chips over Z (the theorems carry the
   bound that keeps every quantity inside i16); a hand strength is a key in N compared with
   N.compare (Model/Evaluator.strength_key embeds the derived Ord of Strength into N);
   `None` for `best` is the initial Ranking::MAX, above every strength.
   The two nested `while let` loops become recursion on fuel; exhaustion is reported by
   [settle_fuel] returning None, and excluded by the theorems.
   No proofs in this file. *)
From Coq Require Import ZArith NArith List Bool.
Import ListNotations.
Open Scope Z_scope.

Inductive sstate := Betting | Shoving | Folding.
Definition sstate_eqb (a b : sstate) : bool :=
  match a, b with Betting, Betting | Shoving, Shoving | Folding, Folding => true | _, _ => false end.
Definition is_fold (s : sstate) : bool := sstate_eqb s Folding.

Record pay := mkPay { reward : Z; risked : Z; status : sstate; skey : N }.
Record showdown := mkSd { pays : list pay; distributing : Z; distributed : Z; best : option N }.

Definition lt_best (x : N) (b : option N) : bool := match b with None => true | Some y => N.ltb x y end.
Definition eq_best (x : N) (b : option N) : bool := match b with None => false | Some y => N.eqb x y end.
Definition maxN (l : list N) : option N := match l with [] => None | x :: r => Some (fold_left N.max r x) end.
Definition minZ (l : list Z) : option Z := match l with [] => None | x :: r => Some (fold_left Z.min r x) end.
Definition sumZ (l : list Z) : Z := fold_left Z.add l 0.

(* strongest(): max strength among non-folded payouts strictly below best *)
Definition strongest (s : showdown) : option N :=
  maxN (map skey (filter (fun p => negb (is_fold (status p)))
                         (filter (fun p => lt_best (skey p) (best s)) (pays s)))).
(* remaining(): side effect distributed := distributing, then the smallest commitment above it
   among the non-folded payouts of the best strength *)
Definition remaining (s : showdown) : showdown * option Z :=
  let s' := mkSd (pays s) (distributing s) (distributing s) (best s) in
  (s', minZ (map risked (filter (fun p => negb (is_fold (status p)))
                                (filter (fun p => distributed s' <? risked p)
                                        (filter (fun p => eq_best (skey p) (best s')) (pays s')))))).
Definition winnings (s : showdown) : Z :=
  sumZ (map (fun p => Z.max (Z.min (risked p) (distributing s) - distributed s) 0) (pays s)).
Definition is_winner (s : showdown) (p : pay) : bool :=
  negb (is_fold (status p)) && eq_best (skey p) (best s) && (distributed s <? risked p).
(* share to every winner, one extra chip to the first `bonus` winners in seat order *)
Fixpoint give (ps : list pay) (s : showdown) (share bonus : Z) : list pay :=
  match ps with
  | [] => []
  | p :: r =>
      if is_winner s p
      then mkPay (reward p + share + (if 0 <? bonus then 1 else 0)) (risked p) (status p) (skey p)
           :: give r s share (bonus - 1)
      else p :: give r s share bonus
  end.
(* chips / n and chips % n : n = 0 would be a division-by-zero panic *)
Definition distribute (s : showdown) : option showdown :=
  let chips := winnings s in
  let n := Z.of_nat (length (filter (is_winner s) (pays s))) in
  if n =? 0 then None
  else Some (mkSd (give (pays s) s (Z.quot chips n) (Z.rem chips n)) (distributing s) (distributed s) (best s)).
Definition is_complete (s : showdown) : bool := sumZ (map risked (pays s)) =? sumZ (map reward (pays s)).

Inductive loop_result := Done (s : showdown) | More (s : showdown) | Panic | OutOfFuel.
(* 'pots loop *)
Fixpoint pots (fuel : nat) (s : showdown) : loop_result :=
  match fuel with
  | O => OutOfFuel
  | S f =>
      let '(s1, r) := remaining s in
      match r with
      | None => More s1
      | Some amt =>
          match distribute (mkSd (pays s1) amt (distributed s1) (best s1)) with
          | None => Panic
          | Some s2 => if is_complete s2 then Done s2 else pots f s2
          end
      end
  end.
(* 'winners loop *)
Fixpoint winners (fuel : nat) (s : showdown) : loop_result :=
  match fuel with
  | O => OutOfFuel
  | S f =>
      match strongest s with
      | None => Done s
      | Some b =>
          match pots (S (S (length (pays s)))) (mkSd (pays s) (distributing s) (distributed s) (Some b)) with
          | Done s1 => Done s1
          | More s1 => winners f s1
          | Panic => Panic
          | OutOfFuel => OutOfFuel
          end
      end
  end.
Definition settle_result (l : list pay) : loop_result := winners (S (S (length l))) (mkSd l 0 0 None).
(* Showdown::from(ledger).settle(): rewards in seat order; None = panic or (never) out of fuel *)
Definition settle (l : list pay) : option (list Z) :=
  match settle_result l with Done s => Some (map reward (pays s)) | _ => None end.
Definition pnl (p : pay) : Z := reward p - risked p.
