(* Model/Deck.v -- executable model (over N) of src/cards/deck.rs (property C14): the bit walk of
   Deck::draw for a given random index, removal of the drawn card, deal, hole.  The loop condition
   (`ones <= i` repaired / `ones < i` original) is read from the source (Gen/GenFixes.v); the rest of
   the body is pinned textually by the translator.  The random index itself (rand::gen_range) is an
   input.  No proofs in this file. *)
From Coq Require Import NArith List Bool.
From RP Require Import Base.Bits Gen.GenFixes.
Import ListNotations.
Open Scope N_scope.

(* while ones <= i { card = tz(deck); deck &= deck - 1; ones += 1 }   (u8 counters: at most 64 rounds) *)
Fixpoint walk (inclusive : bool) (fuel : nat) (deck ones card i : N) : N :=
  match fuel with
  | O => card
  | S f =>
      if (if inclusive then ones <=? i else ones <? i)
      then walk inclusive f (N.land deck (deck - 1)) (ones + 1) (tz64 deck) i
      else card
  end.
Definition draw_at_with (inclusive : bool) (d i : N) : N := walk inclusive 65 d 0 (tz64 d) i.
Definition draw_at (d i : N) : N := draw_at_with DECK_DRAW_INCLUSIVE d i.
(* Hand::remove *)
Definition remove_card (d c : N) : N := N.land d (N.lxor (N.shiftl 1 c) 18446744073709551615).
(* Deck::draw with index i in 0 .. size-1 : (card, remaining deck) *)
Definition draw (d i : N) : N * N := let c := draw_at d i in (c, remove_card d c).
(* Deck::deal / Deck::hole: successive draws with the given indices *)
Fixpoint draws (d : N) (is : list N) : list N * N :=
  match is with
  | [] => ([], d)
  | i :: r => let '(c, d') := draw d i in let '(cs, d'') := draws d' r in (c :: cs, d'')
  end.
