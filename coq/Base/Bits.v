(* Base/Bits.v -- fixed-width machine integers over N / Z, executable definitions only. *)
From Coq Require Import NArith ZArith List Bool.
Import ListNotations.
Open Scope N_scope.

Definition two64 : N := 18446744073709551616.
Definition two32 : N := 4294967296.
Definition two16 : N := 65536.
Definition two8 : N := 256.

Definition u64 (x : N) : N := x mod two64.
Definition u32 (x : N) : N := x mod two32.
Definition u16 (x : N) : N := x mod two16.
Definition u8 (x : N) : N := x mod two8.

(* u64 -> i64 and back (two's complement reinterpretation) *)
Definition i64_of_u64 (x : N) : Z :=
  if x <? 9223372036854775808 then Z.of_N x else (Z.of_N x - 18446744073709551616)%Z.
Definition u64_of_i64 (z : Z) : N := Z.to_N (z mod 18446744073709551616)%Z.

(* i16 <-> low 16 bits *)
Definition i16_of_bits (x : N) : Z :=
  let y := x mod two16 in
  if y <? 32768 then Z.of_N y else (Z.of_N y - 65536)%Z.
Definition bits_of_i16 (z : Z) : N := Z.to_N (z mod 65536)%Z.

(* number of set bits among the low [n] bits (n a small nat: 64 at most) *)
Fixpoint popcount_upto (n : nat) (x : N) : N :=
  match n with
  | O => 0
  | S k => (if N.odd x then 1 else 0) + popcount_upto k (N.div2 x)
  end.
Definition popcount64 (x : N) : N := popcount_upto 64 x.

(* indices of the set bits among the low [n] bits, ascending, starting from index [i] *)
Fixpoint bits_from (n : nat) (i : N) (x : N) : list N :=
  match n with
  | O => []
  | S k => (if N.odd x then [i] else []) ++ bits_from k (i + 1) (N.div2 x)
  end.
Definition set_bits64 (x : N) : list N := bits_from 64 0 x.

(* trailing zeros of a 64-bit word: 64 on zero, as in Rust *)
Definition tz64 (x : N) : N :=
  match set_bits64 x with [] => 64 | i :: _ => i end.
(* index of the most significant set bit, None on zero *)
Definition msb (x : N) : option N :=
  match x with 0 => None | _ => Some (N.log2 x) end.

Definition mask_of_bits (l : list N) : N := fold_left (fun a i => N.lor a (N.shiftl 1 i)) l 0.
