(* Extract.v -- extraction of the executable models and specifications to OCaml.
   ExtrOcamlBasic only: bool, option, list, prod, unit, sumbool map to OCaml's;
   positive / N / Z / nat stay the extracted inductive types.
   Run from extract/gen (the .ml files are written to the current directory). *)
From Coq Require Extraction.
From Coq Require Import ExtrOcamlBasic.
From RP Require Import Base.Bits Model.Codec Model.Evaluator Model.Showdown Model.Game Model.Iso Model.Hands Model.Pgcopy Model.Parse Model.Deck Model.Discount Model.Cfr Model.Tree Model.RegretMatching Model.Kmeans Model.Equity Model.Emd Model.BucketF32 Spec.SpecPgcopy Spec.SpecCombs Spec.SpecIso Spec.SpecPoker Spec.SpecStrength Spec.SpecNLHE Spec.SpecPots Spec.SpecEquity.
(* of Model.BucketF32 only the two integer functions of the characterisation theorem (no Flocq term is extracted) *)
Separate Extraction Gen.GenLib Gen.GenStreet Gen.GenCards Gen.GenAbstract Gen.GenPerm Gen.GenFixes Gen.GenTables Gen.GenDiscount Base.Bits Model.Codec Model.Evaluator Model.Showdown Model.Game Model.Iso Model.Hands Model.Pgcopy Model.Parse Model.Deck Model.Discount Model.Cfr Model.Tree Model.RegretMatching Model.Kmeans Model.Equity Model.Emd Spec.SpecPgcopy Spec.SpecCombs Spec.SpecIso Spec.SpecPoker Spec.SpecStrength Spec.SpecNLHE Spec.SpecPots Spec.SpecEquity Model.BucketF32.bucket_exact Model.BucketF32.rounds_down_tie BinNat.N Coq.ZArith.BinInt.Z.
